//! Shared helpers: limb encoding of u64, trace output, small PRNG, panic capture.
//!
//! The harness never judges: it generates inputs and records facts. Every value TLA+ must do
//! arithmetic on is written as limbs (base 10^9, most significant first) because TLC integers
//! are 32-bit.

use serde_json::{json, Value};
use std::io::Write;

pub const BASE: u64 = 1_000_000_000;

pub fn limbs(v: u64) -> Value {
    json!([v / (BASE * BASE), (v / BASE) % BASE, v % BASE])
}

pub fn from_limbs(v: &Value) -> Option<u64> {
    let a = v.as_array()?;
    if a.len() != 3 {
        return None;
    }
    let l2 = a[0].as_u64()?;
    let l1 = a[1].as_u64()?;
    let l0 = a[2].as_u64()?;
    l2.checked_mul(BASE * BASE)?
        .checked_add(l1.checked_mul(BASE)?)?
        .checked_add(l0)
}

/// The instant `s + ns/10^9` seconds after the Unix epoch (`s` may be negative).
pub fn systime(s: i64, ns: u32) -> std::time::SystemTime {
    use std::time::{Duration, SystemTime};
    if s >= 0 {
        SystemTime::UNIX_EPOCH + Duration::new(s as u64, ns)
    } else {
        SystemTime::UNIX_EPOCH - Duration::from_secs(s.unsigned_abs()) + Duration::new(0, ns)
    }
}

/// Inverse of `systime`: (floor of the seconds since the epoch, nanoseconds).
pub fn secs_ns(t: std::time::SystemTime) -> (i64, u32) {
    match t.duration_since(std::time::SystemTime::UNIX_EPOCH) {
        Ok(d) => (d.as_secs() as i64, d.subsec_nanos()),
        Err(e) => {
            let d = e.duration();
            if d.subsec_nanos() == 0 {
                (-(d.as_secs() as i64), 0)
            } else {
                (-(d.as_secs() as i64) - 1, 1_000_000_000 - d.subsec_nanos())
            }
        }
    }
}

pub fn none() -> Value {
    json!({"k": "none"})
}

/// Printable ASCII stays text; anything else is hex so the trace is valid UTF-8 and TLA+ sees a
/// value it can only compare for equality.
pub fn text_or_hex(b: &[u8]) -> Value {
    if b.iter().all(|&c| (0x20..0x7f).contains(&c) && c != b'\\' && c != b'"') {
        json!({"k": "txt", "s": String::from_utf8_lossy(b)})
    } else {
        json!({"k": "hex", "s": hex(b)})
    }
}

pub fn hex(b: &[u8]) -> String {
    let mut s = String::with_capacity(b.len() * 2);
    for c in b {
        s.push_str(&format!("{:02x}", c));
    }
    s
}

pub fn unhex(s: &str) -> Vec<u8> {
    (0..s.len() / 2)
        .map(|i| u8::from_str_radix(&s[2 * i..2 * i + 2], 16).unwrap_or(0))
        .collect()
}

/// Header value from a case file: either a JSON string or {"hex": "..."}.
pub fn value_bytes(v: &Value) -> Vec<u8> {
    match v {
        Value::String(s) => s.as_bytes().to_vec(),
        Value::Object(o) => o
            .get("hex")
            .and_then(|h| h.as_str())
            .map(unhex)
            .unwrap_or_default(),
        _ => Vec::new(),
    }
}

pub struct Out {
    w: std::io::BufWriter<std::fs::File>,
    pub events: u64,
    /// flush after every event (a child process that may be killed by the case it runs)
    flush_each: bool,
}

impl Out {
    pub fn create(path: &str) -> Out {
        Out {
            w: std::io::BufWriter::new(std::fs::File::create(path).expect("create trace file")),
            events: 0,
            flush_each: std::env::var("VH_CHILD").is_ok(),
        }
    }
    pub fn emit(&mut self, v: Value) {
        // hard bound on the size of a trace file (a looping implementation must not fill the disk)
        if self.events > 3_000_000 {
            return;
        }
        serde_json::to_writer(&mut self.w, &v).expect("write trace");
        self.w.write_all(b"\n").expect("write trace");
        if self.flush_each {
            let _ = self.w.flush();
        }
        self.events += 1;
    }
    pub fn finish(mut self) {
        self.w.flush().expect("flush trace");
    }
}

pub fn read_cases(path: &str) -> Vec<Value> {
    let s = std::fs::read_to_string(path).expect("read cases");
    s.lines()
        .filter(|l| !l.trim().is_empty())
        .map(|l| serde_json::from_str(l).expect("case json"))
        .collect()
}

/// xorshift64*; all harness-side randomness derives from the seed in the case file.
pub struct Rng(pub u64);
impl Rng {
    pub fn new(seed: u64) -> Rng {
        Rng(seed.wrapping_mul(0x9E3779B97F4A7C15) | 1)
    }
    pub fn next(&mut self) -> u64 {
        let mut x = self.0;
        x ^= x >> 12;
        x ^= x << 25;
        x ^= x >> 27;
        self.0 = x;
        x.wrapping_mul(0x2545F4914F6CDD1D)
    }
    pub fn below(&mut self, n: u64) -> u64 {
        if n == 0 {
            0
        } else {
            self.next() % n
        }
    }
}

/// Runs `f`, turning a panic into `Err(message)`. A panic of the code under test is data.
pub fn catch<T>(f: impl FnOnce() -> T) -> Result<T, String> {
    match std::panic::catch_unwind(std::panic::AssertUnwindSafe(f)) {
        Ok(v) => Ok(v),
        Err(e) => Err(if let Some(s) = e.downcast_ref::<&str>() {
            s.to_string()
        } else if let Some(s) = e.downcast_ref::<String>() {
            s.clone()
        } else {
            "panic".to_string()
        }),
    }
}

pub fn silence_panics() {
    std::panic::set_hook(Box::new(|_| {}));
}
