//! `vh <engine> <cases.ndjson> <trace.ndjson>`: drives the real http-serve code with the given
//! cases and records observations. Contains no oracle; TLC judges the traces.

mod common;
mod dir_eng;
mod entity;
mod file_eng;
mod gzdec;
mod lex;
mod neg_eng;
mod serve_eng;
mod stream_eng;
mod stress;

fn main() {
    let a: Vec<String> = std::env::args().collect();
    if a.len() < 4 {
        eprintln!("usage: vh <serve|stream|neg|file|dir> <cases.ndjson> <trace.ndjson>");
        std::process::exit(2);
    }
    match a[1].as_str() {
        "serve" => serve_eng::run(&a[2], &a[3]),
        "stream" => stream_eng::run(&a[2], &a[3]),
        "neg" => neg_eng::run(&a[2], &a[3]),
        "file" => file_eng::run(&a[2], &a[3]),
        "dir" => dir_eng::run(&a[2], &a[3]),
        e => {
            eprintln!("unknown engine {e}");
            std::process::exit(2);
        }
    }
}
