fn main() { println!("hi"); }
