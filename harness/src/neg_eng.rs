//! Engine 3: `http_serve::should_gzip` on rendered Accept-Encoding values.

use crate::common::*;
use serde_json::json;

pub fn run(cases_path: &str, out_path: &str) {
    silence_panics();
    let cases = read_cases(cases_path);
    let mut out = Out::create(out_path);
    for c in &cases {
        if c.get("isolate").and_then(|b| b.as_bool()).unwrap_or(false) && std::env::var("VH_CHILD").is_err() {
            // an input that may take the process down runs in a process of its own; its death is a panic
            let dir = std::path::PathBuf::from(std::env::var("VH_TMP").unwrap_or_else(|_| "/verif/work/files".to_string()));
            let _ = std::fs::create_dir_all(&dir);
            let base = format!("isoneg{}_{}", std::process::id(), c["id"].as_u64().unwrap_or(0));
            let (cp, tp) = (dir.join(format!("{base}.cases.ndjson")), dir.join(format!("{base}.trace.ndjson")));
            std::fs::write(&cp, format!("{}\n", c)).expect("write isolated case");
            let _ = std::env::current_exe().and_then(|exe| {
                std::process::Command::new(exe).arg("neg").arg(&cp).arg(&tp).env("VH_CHILD", "1")
                    .stdout(std::process::Stdio::null()).stderr(std::process::Stdio::null()).status()
            });
            let ev = std::fs::read_to_string(&tp).ok()
                .and_then(|t| t.lines().next().and_then(|l| serde_json::from_str::<serde_json::Value>(l).ok()));
            out.emit(ev.unwrap_or_else(|| json!({"ev": "neg", "case": c["id"], "abs": c["abs"], "res": "panic"})));
            let _ = std::fs::remove_file(&cp);
            let _ = std::fs::remove_file(&tp);
            continue;
        }
        let mut h = http::HeaderMap::new();
        let mut skipped = false;
        // an earlier call on this thread with another value (its answer is not recorded): the value is
        // dropped before the one under test is built, so that the allocator may hand out the same
        // buffer again -- a decision must depend on the bytes of the header, not on where they live
        if let Some(v) = c.get("prev").filter(|v| !v.is_null()) {
            if let Ok(hv) = http::HeaderValue::from_bytes(&value_bytes(v)) {
                h.insert("accept-encoding", hv);
                let _ = catch(|| http_serve::should_gzip(&h));
                h.clear();
            }
        }
        if let Some(v) = c.get("hdr").filter(|v| !v.is_null()) {
            match http::HeaderValue::from_bytes(&value_bytes(v)) {
                Ok(hv) => {
                    h.insert("accept-encoding", hv);
                }
                Err(_) => skipped = true,
            }
        }
        if let Some(v) = c.get("hdr2").filter(|v| !v.is_null()) {
            if let Ok(hv) = http::HeaderValue::from_bytes(&value_bytes(v)) {
                h.append("accept-encoding", hv);
            }
        }
        let res = if skipped {
            "skipped".to_string()
        } else {
            match catch(|| http_serve::should_gzip(&h)) {
                Ok(b) => b.to_string(),
                Err(_) => "panic".to_string(),
            }
        };
        out.emit(json!({"ev": "neg", "case": c["id"], "abs": c["abs"], "res": res}));
    }
    let n = out.events;
    out.finish();
    println!("{{\"cases\": {}, \"events\": {}}}", cases.len(), n);
}
