//! Engine 3: `http_serve::should_gzip` on rendered Accept-Encoding values.

use crate::common::*;
use serde_json::json;

pub fn run(cases_path: &str, out_path: &str) {
    silence_panics();
    let cases = read_cases(cases_path);
    let mut out = Out::create(out_path);
    for c in &cases {
        let mut h = http::HeaderMap::new();
        let mut skipped = false;
        // an earlier call on this thread with another value (its answer is not recorded): the value is
        // dropped before the one under test is built, so that the allocator may hand out the same
        // buffer again -- a decision must depend on the bytes of the header, not on where they live
        if let Some(v) = c.get("prev").filter(|v| !v.is_null()) {
            if let Ok(hv) = http::HeaderValue::from_bytes(&value_bytes(v)) {
                h.insert("accept-encoding", hv);
                let _ = catch(|| http_serve::should_gzip(&h));
                h.clear();
            }
        }
        if let Some(v) = c.get("hdr").filter(|v| !v.is_null()) {
            match http::HeaderValue::from_bytes(&value_bytes(v)) {
                Ok(hv) => {
                    h.insert("accept-encoding", hv);
                }
                Err(_) => skipped = true,
            }
        }
        if let Some(v) = c.get("hdr2").filter(|v| !v.is_null()) {
            if let Ok(hv) = http::HeaderValue::from_bytes(&value_bytes(v)) {
                h.append("accept-encoding", hv);
            }
        }
        let res = if skipped {
            "skipped".to_string()
        } else {
            match catch(|| http_serve::should_gzip(&h)) {
                Ok(b) => b.to_string(),
                Err(_) => "panic".to_string(),
            }
        };
        out.emit(json!({"ev": "neg", "case": c["id"], "abs": c["abs"], "res": res}));
    }
    let n = out.events;
    out.finish();
    println!("{{\"cases\": {}, \"events\": {}}}", cases.len(), n);
}
