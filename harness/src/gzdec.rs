//! Independent gzip decoder (RFC 1952 container + RFC 1951 inflate + CRC-32), written for the
//! harness so that the projection "frames -> decoder facts" does not depend on flate2, the
//! encoder under test.  It is a *streaming* decoder in the sense C09 needs: fed a prefix of a
//! member it decodes as far as the bits allow and reports how far it got.

#[derive(Debug, Default, Clone)]
pub struct GzFacts {
    /// The 10-byte header (and optional fields) parsed and valid.
    pub header_ok: bool,
    /// Bytes decoded before input ran out / the member ended / an error occurred.
    pub decoded: Vec<u8>,
    /// The final deflate block was seen and fully decoded.
    pub deflate_done: bool,
    /// A malformed construct was met (not merely truncated input).
    pub corrupt: bool,
    /// The 8-byte trailer was present.
    pub trailer_present: bool,
    pub crc_ok: bool,
    pub isize_ok: bool,
    /// Bytes after the end of the member.
    pub trailing: usize,
}

struct Bits<'a> {
    d: &'a [u8],
    pos: usize,
    bit: u32,
    nbits: u32,
}

enum E {
    NeedMore,
    Corrupt,
}

impl<'a> Bits<'a> {
    fn need(&mut self, n: u32) -> Result<(), E> {
        while self.nbits < n {
            if self.pos >= self.d.len() {
                return Err(E::NeedMore);
            }
            self.bit |= (self.d[self.pos] as u32) << self.nbits;
            self.pos += 1;
            self.nbits += 8;
        }
        Ok(())
    }
    fn bits(&mut self, n: u32) -> Result<u32, E> {
        if n == 0 {
            return Ok(0);
        }
        self.need(n)?;
        let v = self.bit & ((1u32 << n) - 1);
        self.bit >>= n;
        self.nbits -= n;
        Ok(v)
    }
    fn align(&mut self) {
        let drop = self.nbits % 8;
        self.bit >>= drop;
        self.nbits -= drop;
    }
    /// Byte position of the next unread byte, after aligning (whole bytes still buffered are
    /// given back).
    fn byte_pos(&mut self) -> usize {
        self.align();
        self.pos - (self.nbits / 8) as usize
    }
}

struct Huff {
    count: [u16; 16],
    symbol: Vec<u16>,
}

impl Huff {
    fn new(lengths: &[u8]) -> Result<Huff, E> {
        let mut count = [0u16; 16];
        for &l in lengths {
            count[l as usize] += 1;
        }
        let mut left: i32 = 1;
        for len in 1..16 {
            left <<= 1;
            left -= count[len] as i32;
            if left < 0 {
                return Err(E::Corrupt);
            }
        }
        let mut offs = [0u16; 16];
        for len in 1..15 {
            offs[len + 1] = offs[len] + count[len];
        }
        let mut symbol = vec![0u16; lengths.len()];
        for (sym, &l) in lengths.iter().enumerate() {
            if l != 0 {
                symbol[offs[l as usize] as usize] = sym as u16;
                offs[l as usize] += 1;
            }
        }
        count[0] = 0;
        Ok(Huff { count, symbol })
    }
    fn decode(&self, b: &mut Bits) -> Result<u16, E> {
        let mut code: i32 = 0;
        let mut first: i32 = 0;
        let mut index: i32 = 0;
        for len in 1..16 {
            code |= b.bits(1)? as i32;
            let count = self.count[len] as i32;
            if code - count < first {
                return Ok(self.symbol[(index + (code - first)) as usize]);
            }
            index += count;
            first += count;
            first <<= 1;
            code <<= 1;
        }
        Err(E::Corrupt)
    }
}

const LBASE: [u16; 29] = [
    3, 4, 5, 6, 7, 8, 9, 10, 11, 13, 15, 17, 19, 23, 27, 31, 35, 43, 51, 59, 67, 83, 99, 115, 131, 163, 195, 227, 258,
];
const LEXT: [u8; 29] = [
    0, 0, 0, 0, 0, 0, 0, 0, 1, 1, 1, 1, 2, 2, 2, 2, 3, 3, 3, 3, 4, 4, 4, 4, 5, 5, 5, 5, 0,
];
const DBASE: [u16; 30] = [
    1, 2, 3, 4, 5, 7, 9, 13, 17, 25, 33, 49, 65, 97, 129, 193, 257, 385, 513, 769, 1025, 1537, 2049, 3073, 4097, 6145,
    8193, 12289, 16385, 24577,
];
const DEXT: [u8; 30] = [
    0, 0, 0, 0, 1, 1, 2, 2, 3, 3, 4, 4, 5, 5, 6, 6, 7, 7, 8, 8, 9, 9, 10, 10, 11, 11, 12, 12, 13, 13,
];

fn codes(b: &mut Bits, out: &mut Vec<u8>, lit: &Huff, dist: &Huff) -> Result<(), E> {
    loop {
        // Decode one symbol transactionally: on NeedMore nothing of a partial symbol is emitted.
        let sym = lit.decode(b)?;
        if sym < 256 {
            out.push(sym as u8);
        } else if sym == 256 {
            return Ok(());
        } else {
            let s = (sym - 257) as usize;
            if s >= 29 {
                return Err(E::Corrupt);
            }
            let len = LBASE[s] as usize + b.bits(LEXT[s] as u32)? as usize;
            let ds = dist.decode(b)? as usize;
            if ds >= 30 {
                return Err(E::Corrupt);
            }
            let d = DBASE[ds] as usize + b.bits(DEXT[ds] as u32)? as usize;
            if d > out.len() {
                return Err(E::Corrupt);
            }
            for _ in 0..len {
                out.push(out[out.len() - d]);
            }
        }
    }
}

fn inflate(b: &mut Bits, out: &mut Vec<u8>) -> Result<(), E> {
    loop {
        let last = b.bits(1)?;
        let typ = b.bits(2)?;
        match typ {
            0 => {
                b.align();
                let len = b.bits(16)?;
                let nlen = b.bits(16)?;
                if len != (!nlen & 0xffff) {
                    return Err(E::Corrupt);
                }
                for _ in 0..len {
                    let v = b.bits(8)?;
                    out.push(v as u8);
                }
            }
            1 => {
                let mut l = [0u8; 288];
                for (i, x) in l.iter_mut().enumerate() {
                    *x = if i < 144 {
                        8
                    } else if i < 256 {
                        9
                    } else if i < 280 {
                        7
                    } else {
                        8
                    };
                }
                let lit = Huff::new(&l)?;
                let dist = Huff::new(&[5u8; 30])?;
                codes(b, out, &lit, &dist)?;
            }
            2 => {
                let nlen = b.bits(5)? as usize + 257;
                let ndist = b.bits(5)? as usize + 1;
                let ncode = b.bits(4)? as usize + 4;
                if nlen > 286 || ndist > 30 {
                    return Err(E::Corrupt);
                }
                const ORDER: [usize; 19] = [16, 17, 18, 0, 8, 7, 9, 6, 10, 5, 11, 4, 12, 3, 13, 2, 14, 1, 15];
                let mut lengths = [0u8; 320];
                for &o in ORDER.iter().take(ncode) {
                    lengths[o] = b.bits(3)? as u8;
                }
                let lencode = Huff::new(&lengths[..19])?;
                let mut lengths = [0u8; 320];
                let mut idx = 0;
                while idx < nlen + ndist {
                    let sym = lencode.decode(b)?;
                    if sym < 16 {
                        lengths[idx] = sym as u8;
                        idx += 1;
                    } else {
                        let (val, rep) = match sym {
                            16 => {
                                if idx == 0 {
                                    return Err(E::Corrupt);
                                }
                                (lengths[idx - 1], 3 + b.bits(2)? as usize)
                            }
                            17 => (0, 3 + b.bits(3)? as usize),
                            _ => (0, 11 + b.bits(7)? as usize),
                        };
                        if idx + rep > nlen + ndist {
                            return Err(E::Corrupt);
                        }
                        for _ in 0..rep {
                            lengths[idx] = val;
                            idx += 1;
                        }
                    }
                }
                if lengths[256] == 0 {
                    return Err(E::Corrupt);
                }
                let lit = Huff::new(&lengths[..nlen])?;
                let dist = Huff::new(&lengths[nlen..nlen + ndist])?;
                codes(b, out, &lit, &dist)?;
            }
            _ => return Err(E::Corrupt),
        }
        if last == 1 {
            return Ok(());
        }
    }
}

pub fn crc32(data: &[u8]) -> u32 {
    let mut crc: u32 = 0xffff_ffff;
    for &byte in data {
        crc ^= byte as u32;
        for _ in 0..8 {
            crc = if crc & 1 != 0 { (crc >> 1) ^ 0xedb8_8320 } else { crc >> 1 };
        }
    }
    !crc
}

/// Decodes as much of a single gzip member as `data` contains.
pub fn decode(data: &[u8]) -> GzFacts {
    let mut f = GzFacts::default();
    if data.len() < 10 {
        // a proper prefix of a header is not corrupt as long as it matches so far
        let magic = [0x1f, 0x8b, 0x08];
        f.corrupt = data.iter().zip(magic.iter()).any(|(a, b)| a != b);
        return f;
    }
    if data[0] != 0x1f || data[1] != 0x8b || data[2] != 8 {
        f.corrupt = true;
        return f;
    }
    let flg = data[3];
    if flg & 0xe0 != 0 {
        f.corrupt = true;
        return f;
    }
    let mut p = 10;
    if flg & 4 != 0 {
        if data.len() < p + 2 {
            return f;
        }
        let xlen = data[p] as usize | (data[p + 1] as usize) << 8;
        p += 2 + xlen;
    }
    for bit in [8u8, 16u8] {
        if flg & bit != 0 {
            loop {
                if p >= data.len() {
                    return f;
                }
                p += 1;
                if data[p - 1] == 0 {
                    break;
                }
            }
        }
    }
    if flg & 2 != 0 {
        p += 2;
    }
    if p > data.len() {
        return f;
    }
    f.header_ok = true;
    let mut b = Bits { d: &data[p..], pos: 0, bit: 0, nbits: 0 };
    let mut out = Vec::new();
    match inflate(&mut b, &mut out) {
        Ok(()) => f.deflate_done = true,
        Err(E::NeedMore) => {}
        Err(E::Corrupt) => f.corrupt = true,
    }
    f.decoded = out;
    if f.deflate_done {
        let tp = p + b.byte_pos();
        if data.len() >= tp + 8 {
            f.trailer_present = true;
            let crc = u32::from_le_bytes([data[tp], data[tp + 1], data[tp + 2], data[tp + 3]]);
            let isize = u32::from_le_bytes([data[tp + 4], data[tp + 5], data[tp + 6], data[tp + 7]]);
            f.crc_ok = crc == crc32(&f.decoded);
            f.isize_ok = isize == (f.decoded.len() as u32);
            f.trailing = data.len() - (tp + 8);
        }
    }
    f
}
