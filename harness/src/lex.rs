//! Lossless projection of body bytes to tokens.
//!
//! Harness entities have position-dependent content `byte(i) = i mod 251`, so a maximal ascending
//! run is a token `D(residue of its first byte, length)`. In multipart mode the exact byte patterns
//! of a part header and of the closing delimiter are tokens `PH`/`TR` (tried before a run is
//! started or extended). Everything else is `RAW`. The lexer re-renders what it lexed and asserts
//! byte equality with its input, so the projection is invertible; it judges nothing.

use crate::common::{limbs, text_or_hex};
use serde_json::{json, Value};

#[derive(Copy, Clone, PartialEq, Eq, Debug)]
pub enum Mode {
    /// One RAW token for the whole body (non-2xx responses).
    Raw,
    /// D runs / RAW.
    Data,
    /// PH / TR / D runs / RAW, with the given boundary.
    Multipart,
}

fn parse_u64_canonical(b: &[u8]) -> Option<u64> {
    if b.is_empty() || b.len() > 20 || (b.len() > 1 && b[0] == b'0') {
        return None;
    }
    let mut v: u64 = 0;
    for &c in b {
        if !c.is_ascii_digit() {
            return None;
        }
        v = v.checked_mul(10)?.checked_add((c - b'0') as u64)?;
    }
    Some(v)
}

fn take_digits(b: &[u8], mut i: usize) -> usize {
    while i < b.len() && b[i].is_ascii_digit() {
        i += 1;
    }
    i
}

/// Tries to match a part header at `b[i..]`: returns (token, length).
fn match_ph(b: &[u8], i: usize, boundary: &[u8]) -> Option<(Value, usize)> {
    let mut p = i;
    let mut lit = |p: &mut usize, s: &[u8]| -> bool {
        if b.len() >= *p + s.len() && &b[*p..*p + s.len()] == s {
            *p += s.len();
            true
        } else {
            false
        }
    };
    if !lit(&mut p, b"\r\n--") || !lit(&mut p, boundary) || !lit(&mut p, b"\r\n") {
        return None;
    }
    // field names are case-insensitive
    {
        let name = b"content-range: bytes ";
        if b.len() < p + name.len() || !b[p..p + name.len()].eq_ignore_ascii_case(name) {
            return None;
        }
        p += name.len();
    }
    let e = take_digits(b, p);
    let a = parse_u64_canonical(&b[p..e])?;
    p = e;
    if !lit(&mut p, b"-") {
        return None;
    }
    let e = take_digits(b, p);
    let bb = parse_u64_canonical(&b[p..e])?;
    p = e;
    if !lit(&mut p, b"/") {
        return None;
    }
    let e = take_digits(b, p);
    let l = parse_u64_canonical(&b[p..e])?;
    p = e;
    if !lit(&mut p, b"\r\n") {
        return None;
    }
    // zero or more "name: value\r\n" lines, then "\r\n".
    let mut hdrs = Vec::new();
    let mut hl = 0usize;
    loop {
        if lit(&mut p, b"\r\n") {
            break;
        }
        let line_end = (p..b.len().saturating_sub(1)).find(|&j| b[j] == b'\r' && b[j + 1] == b'\n')?;
        let line = &b[p..line_end];
        let colon = line.windows(2).position(|w| w == b": ")?;
        let name = &line[..colon];
        let value = &line[colon + 2..];
        if name.is_empty() || !name.iter().all(|&c| c.is_ascii_graphic() && c != b':') {
            return None;
        }
        hl += name.len() + value.len() + 4;
        hdrs.push(json!([String::from_utf8_lossy(name), text_or_hex(value)]));
        p = line_end + 2;
    }
    Some((
        json!({"t": "PH", "a": limbs(a), "b": limbs(bb), "l": limbs(l), "hdrs": hdrs,
               "nh": hdrs.len(), "hl": hl, "len": p - i}),
        p - i,
    ))
}

fn match_tr(b: &[u8], i: usize, boundary: &[u8]) -> Option<(Value, usize)> {
    let mut pat = b"\r\n--".to_vec();
    pat.extend_from_slice(boundary);
    pat.extend_from_slice(b"--\r\n");
    if b.len() >= i + pat.len() && b[i..i + pat.len()] == pat[..] {
        Some((json!({"t": "TR", "len": pat.len()}), pat.len()))
    } else {
        None
    }
}

pub fn lex(body: &[u8], mode: Mode, boundary: &[u8]) -> Vec<Value> {
    let mut toks = Vec::new();
    if mode == Mode::Raw {
        if !body.is_empty() {
            toks.push(json!({"t": "RAW", "len": body.len(), "v": text_or_hex(body)}));
        }
        return toks;
    }
    let mut i = 0;
    let mut raw_start: Option<usize> = None;
    let flush_raw = |toks: &mut Vec<Value>, raw_start: &mut Option<usize>, upto: usize| {
        if let Some(s) = raw_start.take() {
            toks.push(json!({"t": "RAW", "len": upto - s, "v": text_or_hex(&body[s..upto])}));
        }
    };
    while i < body.len() {
        if mode == Mode::Multipart {
            if let Some((t, n)) = match_ph(body, i, boundary).or_else(|| match_tr(body, i, boundary)) {
                flush_raw(&mut toks, &mut raw_start, i);
                toks.push(t);
                i += n;
                continue;
            }
        }
        if body[i] < 251 {
            flush_raw(&mut toks, &mut raw_start, i);
            let r = body[i];
            let mut n = 1usize;
            while i + n < body.len() {
                let want = ((body[i + n - 1] as u16 + 1) % 251) as u8;
                if body[i + n] != want {
                    break;
                }
                if mode == Mode::Multipart
                    && body[i + n] == b'\r'
                    && (match_ph(body, i + n, boundary).is_some()
                        || match_tr(body, i + n, boundary).is_some())
                {
                    break;
                }
                n += 1;
            }
            toks.push(json!({"t": "D", "r": r, "n": n}));
            i += n;
        } else {
            if raw_start.is_none() {
                raw_start = Some(i);
            }
            i += 1;
        }
    }
    flush_raw(&mut toks, &mut raw_start, body.len());
    debug_assert_eq!(render_len(&toks), body.len());
    toks
}

fn render_len(toks: &[Value]) -> usize {
    toks.iter()
        .map(|t| {
            t.get("len")
                .or_else(|| t.get("n"))
                .and_then(|v| v.as_u64())
                .unwrap_or(0) as usize
        })
        .sum()
}
