//! Engine 5: `FsDir::get` against a real directory tree built by the harness.
//!
//! Facts logged per case: what `get` returned (error kind, or the node translated through the
//! harness's own (dev, ino) -> name table, `encoding()`, headers written by
//! `add_encoding_headers`), and what the operating system itself does for `base/<path>` and
//! `base/<path>.gz` (so the specification's resolution can be compared with the OS).

use crate::common::*;
use serde_json::{json, Value};
use std::collections::HashMap;
use std::os::unix::fs::MetadataExt;
use std::path::{Path, PathBuf};

fn kind_name(k: std::io::ErrorKind) -> String {
    format!("{:?}", k)
}

struct Tree {
    root: PathBuf,
    names: HashMap<(u64, u64), String>,
}

fn build_tree(root: &Path) -> Tree {
    let _ = std::fs::remove_dir_all(root);
    let base = root.join("base");
    std::fs::create_dir_all(base.join("sub")).unwrap();
    std::fs::create_dir_all(base.join("b.gz")).unwrap();
    let files = [
        "secret", "base/a", "base/a.gz", "base/b", "base/sub/a", "base/sub/c.gz", "base/...", "base/..a", "base/a..",
        "base/.gz", "base/sub/.gz", "base/....gz", "base/b.gz/x", "base/sub/...", "base/sub/a...gz", "base/a...gz",
        "base/a.gz.gz", "base/sub/c.gz.gz",
    ];
    for f in files {
        std::fs::write(root.join(f), f.as_bytes()).unwrap();
    }
    // a .gz sibling that exists, is not a directory and is not a regular file either
    std::fs::write(base.join("dev"), b"base/dev").unwrap();
    std::os::unix::fs::symlink("/dev/null", base.join("dev.gz")).unwrap();
    let mut names = HashMap::new();
    fn walk(p: &Path, rel: &str, names: &mut HashMap<(u64, u64), String>) {
        let m = std::fs::metadata(p).unwrap();
        names.insert((m.dev(), m.ino()), rel.to_string());
        if m.is_dir() {
            for e in std::fs::read_dir(p).unwrap() {
                let e = e.unwrap();
                let n = e.file_name().to_string_lossy().to_string();
                let r = if rel.is_empty() { n.clone() } else { format!("{rel}/{n}") };
                walk(&e.path(), &r, names);
            }
        }
    }
    walk(root, "", &mut names);
    Tree { root: root.to_path_buf(), names }
}

fn os_open(t: &Tree, rel: &[u8]) -> Value {
    // What the operating system does for `rel` relative to the base directory (openat semantics:
    // the empty path names nothing).
    use std::os::unix::ffi::OsStrExt;
    use std::os::unix::io::{AsRawFd, FromRawFd};
    let Ok(c) = std::ffi::CString::new(rel.to_vec()) else {
        return json!({"k": "err", "kind": "InvalidInput"});
    };
    let base = std::fs::File::open(t.root.join("base")).unwrap();
    let _ = std::ffi::OsStr::from_bytes(rel);
    let fd = unsafe { libc::openat(base.as_raw_fd(), c.as_ptr(), libc::O_RDONLY | libc::O_CLOEXEC, 0) };
    if fd < 0 {
        return json!({"k": "err", "kind": kind_name(std::io::Error::last_os_error().kind())});
    }
    let f = unsafe { std::fs::File::from_raw_fd(fd) };
    let m = f.metadata().unwrap();
    json!({"k": "node", "name": t.names.get(&(m.dev(), m.ino())).cloned().unwrap_or_else(|| "?outside".into()),
           "dir": m.is_dir()})
}

pub fn run(cases_path: &str, out_path: &str) {
    silence_panics();
    let cases = read_cases(cases_path);
    let mut out = Out::create(out_path);
    let root = PathBuf::from(std::env::var("VH_TMP").unwrap_or_else(|_| "/verif/work/files".to_string()))
        .join(format!("d{}", std::process::id()));
    let tree = build_tree(&root);
    let rt = tokio::runtime::Builder::new_multi_thread().worker_threads(2).build().expect("runtime");
    let dirs = [
        http_serve::dir::FsDir::builder().auto_gzip(false).for_path(root.join("base")).unwrap(),
        http_serve::dir::FsDir::builder().auto_gzip(true).for_path(root.join("base")).unwrap(),
    ];
    for c in &cases {
        let path_bytes = value_bytes(&c["path"]);
        let auto = c["auto_gzip"].as_bool().unwrap_or(true);
        let mut h = http::HeaderMap::new();
        if let Some(v) = c.get("ae").filter(|v| !v.is_null()) {
            if let Ok(hv) = http::HeaderValue::from_bytes(&value_bytes(v)) {
                h.insert("accept-encoding", hv);
            }
        }
        let mut e = json!({"ev": "dget", "case": c["id"], "abs": c["abs"], "ae": c["abs_ae"], "auto": auto});
        let Ok(path) = String::from_utf8(path_bytes.clone()) else {
            e["res"] = json!({"k": "skipped"});
            out.emit(e);
            continue;
        };
        let d = dirs[auto as usize].clone();
        let r = rt.block_on(async { catch_async(d.get(&path, &h)).await });
        e["res"] = match r {
            Err(m) => json!({"k": "panic", "msg": m}),
            Ok(Err(err)) => json!({"k": "err", "kind": kind_name(err.kind())}),
            Ok(Ok(node)) => {
                let m = node.metadata().clone();
                let mut hd = http::HeaderMap::new();
                node.add_encoding_headers(&mut hd);
                let enc = node.encoding().unwrap_or("");
                let varies = node.encoding_varies();
                // the node as an entity (ties C19 to C18): refused unless it is a regular file
                let ent: Result<http_serve::ChunkedReadFile<bytes::Bytes, Box<dyn std::error::Error + Send + Sync>>, _> =
                    node.into_file_entity(http::HeaderMap::new());
                let (ent_ok, ent_len) = match &ent {
                    Ok(e) => (true, http_serve::Entity::len(e) as i64),
                    Err(_) => (false, -1),
                };
                json!({"k": "node", "ent_ok": ent_ok, "ent_len": ent_len, "size": m.len(), "name": tree.names.get(&(m.dev(), m.ino())).cloned().unwrap_or_else(|| "?outside".into()),
                       "dir": m.is_dir(), "reg": m.is_file(), "enc": enc, "varies": varies,
                       "ce": hd.get("content-encoding").map(|v| String::from_utf8_lossy(v.as_bytes()).to_string()).unwrap_or_default(),
                       "vary": hd.get("vary").map(|v| String::from_utf8_lossy(v.as_bytes()).to_ascii_lowercase()).unwrap_or_default()})
            }
        };
        e["plain"] = os_open(&tree, &path_bytes);
        let mut gzp = path_bytes.clone();
        gzp.extend_from_slice(b".gz");
        e["gzsib"] = os_open(&tree, &gzp);
        out.emit(e);
    }
    drop(dirs);
    let _ = std::fs::remove_dir_all(&root);
    let n = out.events;
    out.finish();
    println!("{{\"cases\": {}, \"events\": {}}}", cases.len(), n);
}

async fn catch_async<T>(f: impl std::future::Future<Output = T>) -> Result<T, String> {
    // FsDir::get runs its blocking part on the runtime's blocking pool and converts a panic
    // there into an io::Error itself; a panic in the async part would unwind through block_on.
    Ok(f.await)
}
