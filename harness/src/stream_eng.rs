//! Engine 2: `streaming_body` -> `BodyWriter` -> chunker, under a deterministic baton scheduler.
//!
//! The producer program runs on its own OS thread with a yield hook (feature `verif-hooks`)
//! that blocks before every mutex acquisition and every `wake()`; the consumer operations run
//! on the controller thread while the producer is parked at a yield point.  Exactly one of the
//! two ever runs, so an execution is a deterministic function of its schedule and every step
//! between two scheduling points is atomic.  After each step the controller snapshots the
//! shared state through the Probe and emits one event.

use crate::common::*;
use crate::gzdec;
use bytes::{Buf, Bytes};
use http_body::Body as _;
use http_serve::verif::{set_thread_hook, Site};
use serde_json::{json, Value};
use std::io::Write;
use std::pin::Pin;
use std::sync::atomic::{AtomicBool, AtomicUsize, Ordering};
use std::sync::mpsc::{channel, Receiver, RecvTimeoutError, Sender};
use std::sync::{Arc, Mutex};
use std::task::{Context, Poll, Waker};
use std::time::Duration;

type BoxError = Box<dyn std::error::Error + Send + Sync>;

struct IdWaker {
    hits: AtomicUsize,
}
impl IdWaker {
    fn hit(&self) {
        self.hits.fetch_add(1, Ordering::SeqCst);
        // A waker may run arbitrary code (an eager executor polls the task inside wake()), and a
        // thread may be preempted right after it: the point just after the wake-up is a scheduling
        // point of its own for the thread that called wake().
        IN_WAKE.with(|h| {
            if let Some(f) = h.borrow_mut().as_mut() {
                f();
            }
        });
    }
}

thread_local! {
    static IN_WAKE: std::cell::RefCell<Option<Box<dyn FnMut()>>> = const { std::cell::RefCell::new(None) };
    static IN_CLONE: std::cell::RefCell<Option<Box<dyn FnMut(&'static str)>>> = const { std::cell::RefCell::new(None) };
}

/// The body's data type: `Bytes`, whose conversion from the chunk (`From<Vec<u8>>`, user code as well)
/// is a scheduling point of the consumer operation when it runs outside the chunker's mutex.
pub struct HData(Bytes);
impl From<Vec<u8>> for HData {
    fn from(v: Vec<u8>) -> Self {
        IN_CLONE.with(|h| {
            if let Some(f) = h.borrow_mut().as_mut() {
                f("data_from");
            }
        });
        HData(Bytes::from(v))
    }
}
impl From<&'static [u8]> for HData {
    fn from(v: &'static [u8]) -> Self {
        HData(Bytes::from_static(v))
    }
}
impl From<&'static str> for HData {
    fn from(v: &'static str) -> Self {
        HData(Bytes::from_static(v.as_bytes()))
    }
}
impl Buf for HData {
    fn remaining(&self) -> usize {
        self.0.remaining()
    }
    fn chunk(&self) -> &[u8] {
        self.0.chunk()
    }
    fn advance(&mut self, n: usize) {
        self.0.advance(n)
    }
}

/// A `Waker` over an `IdWaker` whose `clone` is a scheduling point too (cloning a waker is user
/// code as well: it may be slow, and the thread may be preempted inside it).
fn hooked_waker(a: Arc<IdWaker>) -> Waker {
    use std::task::{RawWaker, RawWakerVTable};
    unsafe fn clone(p: *const ()) -> RawWaker {
        IN_CLONE.with(|h| {
            if let Some(f) = h.borrow_mut().as_mut() {
                f("waker_clone");
            }
        });
        Arc::increment_strong_count(p as *const IdWaker);
        RawWaker::new(p, &VTABLE)
    }
    unsafe fn wake(p: *const ()) {
        let a = Arc::from_raw(p as *const IdWaker);
        a.hit();
    }
    unsafe fn wake_by_ref(p: *const ()) {
        let a = std::mem::ManuallyDrop::new(Arc::from_raw(p as *const IdWaker));
        a.hit();
    }
    unsafe fn drop_w(p: *const ()) {
        drop(Arc::from_raw(p as *const IdWaker));
    }
    static VTABLE: RawWakerVTable = RawWakerVTable::new(clone, wake, wake_by_ref, drop_w);
    unsafe { Waker::from_raw(RawWaker::new(Arc::into_raw(a) as *const (), &VTABLE)) }
}

enum PMsg {
    Yield(String),
    Finished,
    Panicked(String),
}

enum CCmd {
    Op(String, usize),
}

enum CMsg {
    Yield(String),
    Done(Value, Vec<u8>),
}

#[derive(Default)]
struct PShared {
    done: Vec<Value>,
    accepted: Vec<u8>,
}

fn payload_byte(kind: &str, pos: u64, seed: u64) -> u8 {
    match kind {
        "zeros" => 0,
        "rand" => {
            let mut x = pos.wrapping_add(seed).wrapping_mul(0x9E3779B97F4A7C15);
            x ^= x >> 29;
            x = x.wrapping_mul(0xBF58476D1CE4E5B9);
            x ^= x >> 32;
            x as u8
        }
        _ => (pos % 251) as u8,
    }
}

const NWAKERS: usize = 3;

struct Ctl {
    to_p: Sender<()>,
    from_p: Receiver<PMsg>,
    psite: Option<String>, // pending producer scheduling point (None: finished)
    shared: Arc<Mutex<PShared>>,
    inflight: Arc<AtomicUsize>,
    curop: Arc<Mutex<String>>,
    cdropped: Arc<AtomicBool>,
    pbuffered: Arc<Mutex<i64>>,
}

fn snap_json(s: &http_serve::verif::Snapshot) -> Value {
    json!({"st": s.state, "ready": s.ready, "rb": s.ready_bytes, "wd": s.writer_dropped,
           "wk": match s.waker { None => 0, Some(i) if i < NWAKERS => i + 1, Some(_) => 99 }})
}

fn no_res() -> Value {
    json!({"res": "", "n": 0, "fs": 0, "single": true, "lo": 0, "up": -1, "eos": false})
}

pub fn run(cases_path: &str, out_path: &str) {
    silence_panics();
    let cases = read_cases(cases_path);
    let mut out = Out::create(out_path);
    for case in &cases {
        run_case(&mut out, case);
    }
    let n = out.events;
    out.finish();
    println!("{{\"cases\": {}, \"events\": {}}}", cases.len(), n);
}

fn run_case(out: &mut Out, case: &Value) {
    if case.get("stress").is_some() {
        out.emit(crate::stress::run_stress(case));
        return;
    }
    let cap = case["cap"].as_u64().unwrap_or(4) as usize;
    let level = case["level"].as_u64().unwrap_or(6) as u32;
    let method = case["method"].as_str().unwrap_or("GET");
    let ae: Option<Vec<u8>> = case.get("ae").filter(|v| !v.is_null()).map(value_bytes);
    let use_parts = case["parts"].as_bool().unwrap_or(false);
    let payload = case["payload"].as_str().unwrap_or("ramp").to_string();
    let pseed = case["pseed"].as_u64().unwrap_or(0);
    let extra = case["extra"].as_u64().unwrap_or(2);

    // ---- build
    let mut rb = http::Request::builder()
        .method(http::Method::from_bytes(method.as_bytes()).unwrap_or(http::Method::GET))
        .uri("/");
    if let Some(v) = &ae {
        if let Ok(hv) = http::HeaderValue::from_bytes(v) {
            rb = rb.header("accept-encoding", hv);
        }
    }
    if let Some(v2) = case.get("ae2").filter(|v| !v.is_null()).map(value_bytes) {
        if let Ok(hv) = http::HeaderValue::from_bytes(&v2) {
            rb = rb.header("accept-encoding", hv);   // a second Accept-Encoding field line
        }
    }
    let req = rb.body(()).unwrap();
    // what the crate's own should_gzip says for exactly these headers (C17: "as should_gzip decides")
    let sg = catch(|| http_serve::should_gzip(req.headers())).unwrap_or(false);
    let built = catch(|| {
        let b = if use_parts {
            let (parts, _) = req.into_parts();
            http_serve::streaming_body(&parts)
        } else {
            http_serve::streaming_body(&req)
        };
        // builder calls in the order given by the case: earlier with_gzip_level calls must not
        // leak into the result; `level` is the last one
        let mut b = b;
        if let Some(ls) = case.get("levels").and_then(|l| l.as_array()) {
            for (i, l) in ls.iter().enumerate() {
                if i == 1 {
                    b = b.with_chunk_size(cap);
                }
                b = b.with_gzip_level(l.as_u64().unwrap_or(6) as u32);
            }
        }
        b.with_chunk_size(cap).with_gzip_level(level).build::<HData, BoxError>()
    });
    out.emit(json!({"ev": "reset", "case": case["id"], "cap": cap, "abs": case.get("abs").cloned().unwrap_or(json!({"k": "absent"})),
                    "level": level, "method": method, "mclass": if method == "HEAD" {"head"} else {"other"},
                    "prog": case.get("prog").cloned().unwrap_or(json!([]))}));
    let (resp, writer) = match built {
        Ok(x) => x,
        Err(msg) => {
            out.emit(json!({"ev": "build", "panic": true, "msg": msg}));
            return;
        }
    };
    let (parts, body) = resp.into_parts();
    let (h, _) = crate::serve_eng::project_head(parts.status.as_u16(), &parts.headers, &[]);
    let gz = parts.headers.get("content-encoding").map(|v| v.as_bytes() == b"gzip").unwrap_or(false);
    out.emit(json!({"ev": "build", "panic": false, "h": h, "writer": writer.is_some(), "gzhdr": gz, "sg": sg}));

    let probe = body.verif_probe().expect("streaming body has a probe");
    let c_probe = body.verif_probe().expect("probe");
    let p_probe = body.verif_probe().expect("probe");
    let p_probe2 = body.verif_probe().expect("probe");
    let c_probe2 = body.verif_probe().expect("probe");
    // 1 / 2: the producer / the consumer is parked at a scheduling point while it holds the mutex
    let holder = Arc::new(AtomicUsize::new(0));
    // a wake-up delivered while the chunker's mutex is held (decided on the waking thread itself: under
    // the baton nobody else runs, so a held mutex is held by the caller of wake())
    let wake_locked = Arc::new(AtomicBool::new(false));
    let wakers: Vec<Arc<IdWaker>> = (0..NWAKERS).map(|_| Arc::new(IdWaker { hits: AtomicUsize::new(0) })).collect();
    let std_wakers: Vec<Waker> = wakers.iter().map(|w| hooked_waker(w.clone())).collect();
    // ---- consumer thread: owns the body; runs one Reader operation per command.  Its yield hook
    // lets the first scheduling point of an operation through (the operation was scheduled as a
    // whole) and blocks at any further one, which then becomes a scheduling point of its own.
    let (c_cmd_tx, c_cmd_rx) = channel::<CCmd>();
    let (c_msg_tx, c_msg_rx) = channel::<CMsg>();
    let (c_grant_tx, c_grant_rx) = channel::<()>();
    let c_wakers = std_wakers.clone();
    let holder_c = holder.clone();
    let c_handle = std::thread::spawn(move || {
        let mut body = Some(Box::pin(body));
        let first = std::rc::Rc::new(std::cell::Cell::new(false));
        let first2 = first.clone();
        let tx_hook = c_msg_tx.clone();
        let c_grant_rx = Arc::new(Mutex::new(c_grant_rx));
        let c_grant_rx2 = c_grant_rx.clone();
        set_thread_hook(Some(Box::new(move |site: Site| {
            if first2.get() {
                first2.set(false);
                return;
            }
            holder_c.store(if c_probe2.is_locked() { 2 } else { 0 }, Ordering::SeqCst);
            let _ = tx_hook.send(CMsg::Yield(site.name().to_string()));
            let _ = c_grant_rx.lock().unwrap().recv();
            holder_c.store(0, Ordering::SeqCst);
        })));
        {
            // cloning the waker outside the critical section is a scheduling point of the operation
            // (inside it nothing can interleave anyway, and parking there would block everybody)
            let tx_c = c_msg_tx.clone();
            let rx_c = c_grant_rx2.clone();
            IN_CLONE.with(|h| {
                *h.borrow_mut() = Some(Box::new(move |what: &'static str| {
                    if c_probe.is_locked() {
                        return;
                    }
                    // The conversion of a popped chunk into the data type normally runs after the shared
                    // state has been put back: between the pop and the frame's delivery nothing another
                    // thread sees is unsettled, and the specification treats the poll as one step.  It is a
                    // scheduling point only if the state visible to others at this moment is the reader's
                    // "gone" placeholder although a frame is being produced: then the producer gets its turn.
                    if what == "data_from" && c_probe.snapshot(&[]).state != "fused" {
                        return;
                    }
                    let _ = tx_c.send(CMsg::Yield(what.to_string()));
                    let _ = rx_c.lock().unwrap().recv();
                }))
            });
        }
        while let Ok(CCmd::Op(op, w)) = c_cmd_rx.recv() {
            first.set(true);
            let mut r = no_res();
            let mut bytes: Vec<u8> = Vec::new();
            match op.as_str() {
                "poll" => {
                    let widx = w.clamp(1, NWAKERS) - 1;
                    let mut cx = Context::from_waker(&c_wakers[widx]);
                    let b = body.as_mut().unwrap();
                    match catch(|| Pin::as_mut(b).poll_frame(&mut cx)) {
                        Err(msg) => {
                            r["res"] = json!("panic");
                            r["msg"] = json!(msg);
                        }
                        Ok(Poll::Pending) => r["res"] = json!("pending"),
                        Ok(Poll::Ready(None)) => r["res"] = json!("end"),
                        Ok(Poll::Ready(Some(Err(_)))) => r["res"] = json!("err"),
                        Ok(Poll::Ready(Some(Ok(f)))) => match f.into_data() {
                            Ok(mut d) => {
                                let n = d.remaining();
                                let mut v = vec![0u8; n];
                                d.copy_to_slice(&mut v);
                                r["res"] = json!("data");
                                r["n"] = json!(n);
                                if !v.is_empty() {
                                    r["fs"] = json!(v[0]);
                                    r["single"] = json!(v[0] < 251
                                        && v.windows(2).all(|p| p[1] as u16 == (p[0] as u16 + 1) % 251));
                                }
                                bytes = v;
                            }
                            Err(_) => r["res"] = json!("trailers"),
                        },
                    }
                }
                "hint" => {
                    let b = body.as_ref().unwrap();
                    match catch(|| b.size_hint()) {
                        Ok(h) => {
                            r["res"] = json!("hint");
                            r["lo"] = json!(h.lower());
                            r["up"] = json!(h.upper().map(|u| u as i64).unwrap_or(-1));
                        }
                        Err(msg) => { r["res"] = json!("panic"); r["msg"] = json!(msg); }
                    }
                }
                "eos" => {
                    let b = body.as_ref().unwrap();
                    match catch(|| b.is_end_stream()) {
                        Ok(e) => { r["res"] = json!("eos"); r["eos"] = json!(e); }
                        Err(msg) => { r["res"] = json!("panic"); r["msg"] = json!(msg); }
                    }
                }
                "drop" => {
                    let b = body.take();
                    if w % 2 == 0 {
                        // the body goes away during panic unwinding (a connection task that panics
                        // while it holds the response)
                        let _ = catch(move || {
                            let _held = b;
                            panic!("unwinding with the body alive");
                        });
                    } else {
                        let _ = catch(move || drop(b));
                    }
                    r["res"] = json!("dropped");
                }
                _ => {}
            }
            let _ = c_msg_tx.send(CMsg::Done(r, bytes));
        }
        set_thread_hook(None);
        IN_CLONE.with(|h| *h.borrow_mut() = None);
        drop(body);
    });
    let mut c_mid: Option<(String, usize)> = None;

    // ---- producer thread
    let (to_p, p_rx) = channel::<()>();
    let (p_tx, from_p) = channel::<PMsg>();
    let shared = Arc::new(Mutex::new(PShared::default()));
    let inflight = Arc::new(AtomicUsize::new(0));
    let curop = Arc::new(Mutex::new("none".to_string()));
    let cdropped = Arc::new(AtomicBool::new(false));
    let pbuffered = Arc::new(Mutex::new(0i64));
    let prog: Vec<(String, u64)> = case["prog"]
        .as_array()
        .map(|a| a.iter().map(|o| (o[0].as_str().unwrap_or("").to_string(), o[1].as_u64().unwrap_or(0))).collect())
        .unwrap_or_default();
    let mut ctl = Ctl { to_p, from_p, psite: None, shared: shared.clone(), inflight: inflight.clone(),
                        curop: curop.clone(), cdropped: cdropped.clone(), pbuffered: pbuffered.clone() };
    let handle = if let Some(w) = writer {
        let payload2 = payload.clone();
        let wake_locked2 = wake_locked.clone();
        let holder2 = holder.clone();
        let h = std::thread::spawn(move || {
            let p_tx2 = p_tx.clone();
            let rx = Arc::new(Mutex::new(p_rx));
            let rx2 = rx.clone();
            let tx_hook = p_tx.clone();
            let holder_p = holder2.clone();
            set_thread_hook(Some(Box::new(move |site: Site| {
                // parked inside a critical section: only this thread can run until it leaves it
                holder_p.store(if p_probe2.is_locked() { 1 } else { 0 }, Ordering::SeqCst);
                let _ = tx_hook.send(PMsg::Yield(site.name().to_string()));
                let _ = rx2.lock().unwrap().recv();
                holder_p.store(0, Ordering::SeqCst);
            })));
            {
                let tx_w = p_tx.clone();
                let rx_w = rx.clone();
                let wl = wake_locked2.clone();
                IN_WAKE.with(|h| {
                    *h.borrow_mut() = Some(Box::new(move || {
                        if p_probe.is_locked() {
                            // (no scheduling point here: everybody else would block on the mutex)
                            wl.store(true, Ordering::SeqCst);
                            return;
                        }
                        let _ = tx_w.send(PMsg::Yield("after_wake".to_string()));
                        let _ = rx_w.lock().unwrap().recv();
                    }))
                });
            }
            // wait for the first grant before doing anything
            let _ = rx.lock().unwrap().recv();
            let r = std::panic::catch_unwind(std::panic::AssertUnwindSafe(|| {
                let mut w = Some(w);
                let mut pos: u64 = 0;
                for (op, n) in prog {
                    let sdrop = cdropped.load(Ordering::SeqCst);
                    *curop.lock().unwrap() = op.clone();
                    let mut rec = json!({"op": op, "n": n, "n1": n, "res": "ok", "k": 0, "sdrop": sdrop, "buf": -1});
                    match op.as_str() {
                        "write" => {
                            let data: Vec<u8> = (0..n).map(|i| payload_byte(&payload2, pos + i, pseed)).collect();
                            inflight.store(n as usize, Ordering::SeqCst);
                            match w.as_mut().map(|w| w.write(&data)) {
                                Some(Ok(k)) => {
                                    rec["k"] = json!(k);
                                    shared.lock().unwrap().accepted.extend_from_slice(&data[..k]);
                                    pos += k as u64;
                                }
                                Some(Err(_)) => rec["res"] = json!("err"),
                                None => rec["res"] = json!("gone"),
                            }
                            inflight.store(0, Ordering::SeqCst);
                        }
                        "writev" => {
                            // Write::write_vectored with three slices (the first a third, the second
                            // empty, the third the rest); recorded as a write that accepted `k` bytes of
                            // the concatenation
                            let data: Vec<u8> = (0..n).map(|i| payload_byte(&payload2, pos + i, pseed)).collect();
                            let cut = (n as usize) * 2 / 3;
                            let bufs = [std::io::IoSlice::new(&data[..cut]), std::io::IoSlice::new(&[]), std::io::IoSlice::new(&data[cut..])];
                            inflight.store(n as usize, Ordering::SeqCst);
                            rec["op"] = json!("write");
                            rec["n1"] = json!(if cut > 0 { cut } else { n as usize });
                            match w.as_mut().map(|w| w.write_vectored(&bufs)) {
                                Some(Ok(k)) => {
                                    rec["k"] = json!(k);
                                    shared.lock().unwrap().accepted.extend_from_slice(&data[..k.min(data.len())]);
                                    pos += k as u64;
                                }
                                Some(Err(_)) => rec["res"] = json!("err"),
                                None => rec["res"] = json!("gone"),
                            }
                            inflight.store(0, Ordering::SeqCst);
                        }
                        "flush" => match w.as_mut().map(|w| w.flush()) {
                            Some(Ok(())) => {}
                            Some(Err(_)) => rec["res"] = json!("err"),
                            None => rec["res"] = json!("gone"),
                        },
                        "abort" => {
                            if let Some(w) = w.as_mut() {
                                w.abort("aborted by harness".into());
                            }
                        }
                        "drop" => {
                            if n == 1 {
                                // the writer goes away while its thread is unwinding from a panic
                                let ww = w.take();
                                let _ = std::panic::catch_unwind(std::panic::AssertUnwindSafe(move || {
                                    let _held = ww;
                                    panic!("producer panics with the writer alive");
                                }));
                            } else {
                                drop(w.take());
                            }
                        }
                        "wait" => {
                            let _ = p_tx.send(PMsg::Yield("wait".to_string()));
                            let _ = rx.lock().unwrap().recv();
                        }
                        _ => {}
                    }
                    let b = w.as_ref().and_then(|w| w.verif_buffered()).map(|b| b as i64).unwrap_or(-1);
                    rec["buf"] = json!(b);
                    rec["acc"] = json!(shared.lock().unwrap().accepted.len());
                    *pbuffered.lock().unwrap() = b;
                    *curop.lock().unwrap() = "none".to_string();
                    shared.lock().unwrap().done.push(rec);
                }
                drop(w);
            }));
            set_thread_hook(None);
            IN_WAKE.with(|h| *h.borrow_mut() = None);
            match r {
                Ok(()) => {
                    let _ = p_tx2.send(PMsg::Finished);
                }
                Err(e) => {
                    let msg = e.downcast_ref::<&str>().map(|s| s.to_string())
                        .or_else(|| e.downcast_ref::<String>().cloned()).unwrap_or_else(|| "panic".into());
                    let _ = p_tx2.send(PMsg::Panicked(msg));
                }
            }
        });
        Some(h)
    } else {
        None
    };

    // ---- controller state
    let mut park: usize = 0;
    let mut seen_hits = vec![0usize; NWAKERS];
    let mut woken = vec![false; NWAKERS + 1];
    let mut term = false;
    let mut after = 0u64;
    let mut spur = 0u64;
    let mut delivered: Vec<u8> = Vec::new();
    let mut alive = true;
    let maxspur = case["maxspur"].as_u64().unwrap_or(2);
    let is_gz = gz;

    // helper closures are awkward with the borrow checker; use macros instead
    // The controller must never block on the chunker's mutex: if it is held while every thread is
    // parked (a thread parked at a scheduling point *inside* a critical section -- never on the
    // pinned tree), the last snapshot stands (nothing can have changed) and `lock_held` is recorded.
    let last_snap = std::cell::RefCell::new(http_serve::verif::Snapshot {
        state: "ok", ready: Vec::new(), ready_bytes: 0, writer_dropped: false, waker: None });
    let lock_held = std::cell::Cell::new(false);
    macro_rules! snapshot {
        () => {{
            if probe.is_locked() {
                lock_held.set(true);
            } else {
                *last_snap.borrow_mut() = probe.snapshot(&std_wakers);
            }
            last_snap.borrow().clone()
        }};
    }
    macro_rules! collect_wakes {
        () => {{
            let mut w = 0usize;
            for i in 0..NWAKERS {
                let h = wakers[i].hits.load(Ordering::SeqCst);
                if h > seen_hits[i] {
                    seen_hits[i] = h;
                    woken[i + 1] = true;
                    w = i + 1;
                }
            }
            w
        }};
    }

    // start the producer: run its local code up to the first scheduling point
    let mut pfin = handle.is_none();
    if handle.is_some() {
        let _ = ctl.to_p.send(());
        match wait_p(&ctl) {
            Ok(Some(site)) => ctl.psite = Some(site),
            Ok(None) => { ctl.psite = None; pfin = true; }
            Err(msg) => { out.emit(json!({"ev": "step", "t": "X", "cop": msg, "r": no_res()})); return; }
        }
    }
    let base_event = |t: &str, ctl: &Ctl, snap: Value, pfin: bool| -> Value {
        json!({"ev": "step", "t": t, "done": [], "wake": 0, "cop": "", "w": 0, "r": no_res(),
               "inflight": ctl.inflight.load(Ordering::SeqCst), "curop": *ctl.curop.lock().unwrap(),
               "snap": snap, "pfin": pfin, "buffered": *ctl.pbuffered.lock().unwrap(), "cap": cap, "gz": is_gz,
               "site": "", "wake_locked": false, "lock_held": false})
    };
    {
        // initial event: operations completed before the first scheduling point
        let done = std::mem::take(&mut ctl.shared.lock().unwrap().done);
        let mut e = base_event("P", &ctl, snap_json(&snapshot!()), pfin);
        e["done"] = json!(done);
        e["site"] = json!("start");
        flush_facts(&mut e, &ctl, &delivered, &probe, is_gz);
        out.emit(e);
    }

    let sched: Vec<Value> = case["sched"].as_array().cloned().unwrap_or_default();
    let mut rng = Rng::new(case["rseed"].as_u64().unwrap_or(1));
    let rand_steps = case["rand_steps"].as_u64().unwrap_or(0);
    let mut si = 0usize;
    let mut steps = 0u64;
    let max_steps = 5000u64;
    loop {
        steps += 1;
        if steps > max_steps {
            out.emit(json!({"ev": "step", "t": "X", "cop": "maxsteps", "r": no_res()}));
            break;
        }
        let snap = snapshot!();
        let p_runnable = match &ctl.psite {
            None => false,
            Some(s) if s == "wait" => snap.ready_bytes == 0 || snap.state != "ok" || !alive,
            Some(_) => true,
        };
        let can_poll_nospur = alive && (park == 0 || woken[park]);
        let can_poll = alive && (can_poll_nospur || spur < maxspur);
        // ---- choose the next step
        let hold = holder.load(Ordering::SeqCst);
        let choice: Option<(String, String, usize)> = if hold == 1 && ctl.psite.is_some() {
            Some(("P".into(), "".into(), 0))
        } else if hold == 2 && c_mid.is_some() {
            let (mop, mw) = c_mid.clone().unwrap();
            Some(("C".into(), mop, mw))
        } else if let Some((mop, mw)) = c_mid.clone() {
            // a consumer operation is parked at a second scheduling point inside the operation
            // (does not happen on the pinned tree): interleave the producer with its continuation
            if si < sched.len() {
                out.emit(json!({"ev": "step", "t": "X", "cop": "diverged", "r": no_res(), "at": si}));
                si = sched.len();
            }
            if p_runnable && rng.below(100) < 60 {
                Some(("P".into(), "".into(), 0))
            } else {
                Some(("C".into(), mop, mw))
            }
        } else if si < sched.len() {
            let s = &sched[si];
            si += 1;
            let t = s[0].as_str().unwrap_or("").to_string();
            let op = s.get(1).and_then(|o| o.as_str()).unwrap_or("").to_string();
            let w = s.get(2).and_then(|w| w.as_u64()).unwrap_or(1) as usize;
            let ok = match t.as_str() {
                "P" => p_runnable,
                "C" => match op.as_str() {
                    "poll" => can_poll && !(term && after >= extra + 8),
                    _ => alive,
                },
                _ => false,
            };
            if !ok {
                out.emit(json!({"ev": "step", "t": "X", "cop": "diverged", "r": no_res(), "at": si}));
                si = sched.len();
                continue;
            }
            Some((t, op, w))
        } else if (steps as u64) <= rand_steps && (p_runnable || can_poll) {
            // seeded random schedule
            let r = rng.below(100);
            if p_runnable && (r < 45 || !can_poll) {
                Some(("P".into(), "".into(), 0))
            } else if alive && r >= 92 && r < 96 {
                Some(("C".into(), "hint".into(), 0))
            } else if alive && r >= 96 && r < 99 {
                Some(("C".into(), "eos".into(), 0))
            } else if alive && r == 99 && case["rand_cdrop"].as_bool().unwrap_or(false) {
                Some(("C".into(), "drop".into(), rng.below(2) as usize))
            } else if can_poll && !(term && after >= extra) {
                Some(("C".into(), "poll".into(), 1 + rng.below(NWAKERS as u64) as usize))
            } else if p_runnable {
                Some(("P".into(), "".into(), 0))
            } else {
                None
            }
        } else {
            // drain: finish the producer, then poll (without spurious polls) to the terminal event
            if p_runnable {
                Some(("P".into(), "".into(), 0))
            } else if alive && !term && can_poll_nospur {
                Some(("C".into(), "poll".into(), if park != 0 { park } else { 1 }))
            } else if alive && term && after < extra {
                Some(("C".into(), "poll".into(), 1))
            } else {
                None
            }
        };
        let Some((t, op, w)) = choice else {
            // nothing can run
            if alive && !term {
                // producer finished or blocked in `wait`, consumer parked and not woken
                out.emit(json!({"ev": "step", "t": "X", "cop": "stuck", "r": no_res(),
                                "psite": ctl.psite.clone().unwrap_or_default(), "park": park}));
            }
            break;
        };
        if t == "P" {
            let site = ctl.psite.clone().unwrap_or_default();
            let _ = ctl.to_p.send(());
            let mut xerr = None;
            match wait_p(&ctl) {
                Ok(Some(s)) => ctl.psite = Some(s),
                Ok(None) => { ctl.psite = None; pfin = true; }
                Err(msg) => { xerr = Some(msg); ctl.psite = None; pfin = true; }
            }
            let wake = collect_wakes!();
            let done = std::mem::take(&mut ctl.shared.lock().unwrap().done);
            let mut e = base_event("P", &ctl, snap_json(&snapshot!()), pfin);
            e["done"] = json!(done);
            e["wake"] = json!(wake);
            e["site"] = json!(site);
            e["wake_locked"] = json!(wake_locked.swap(false, Ordering::SeqCst));
            e["lock_held"] = json!(lock_held.replace(false));
            flush_facts(&mut e, &ctl, &delivered, &probe, is_gz);
            out.emit(e);
            if let Some(msg) = xerr {
                out.emit(json!({"ev": "step", "t": "X", "cop": msg, "r": no_res()}));
                break;
            }
        } else {
            if c_mid.is_none() {
                if op == "poll" {
                    if park != 0 && !woken[park] {
                        spur += 1;
                    }
                    if park != 0 {
                        woken[park] = false;
                    }
                    park = 0;
                    if term {
                        after += 1;
                    }
                }
                let _ = c_cmd_tx.send(CCmd::Op(op.clone(), w));
            } else {
                let _ = c_grant_tx.send(());
            }
            let msg = c_msg_rx.recv_timeout(Duration::from_secs(20));
            let wake = collect_wakes!();
            let mut e = base_event("C", &ctl, snap_json(&snapshot!()), pfin);
            e["w"] = json!(w);
            e["wake"] = json!(wake);
            match msg {
                Ok(CMsg::Yield(site)) => {
                    c_mid = Some((op.clone(), w));
                    e["cop"] = json!("cont");
                    e["site"] = json!(site);
                    out.emit(e);
                }
                Ok(CMsg::Done(r, bytes)) => {
                    c_mid = None;
                    match (op.as_str(), r["res"].as_str().unwrap_or("")) {
                        ("poll", "pending") => park = w.clamp(1, NWAKERS),
                        ("poll", "end") | ("poll", "err") | ("poll", "panic") => term = true,
                        ("drop", _) => {
                            alive = false;
                            park = 0;
                            ctl.cdropped.store(true, Ordering::SeqCst);
                        }
                        _ => {}
                    }
                    delivered.extend_from_slice(&bytes);
                    // the snapshot must be taken after the operation completed
                    e["snap"] = snap_json(&snapshot!());
                    e["cop"] = json!(op);
                    e["r"] = r;
                    out.emit(e);
                }
                Err(_) => {
                    out.emit(json!({"ev": "step", "t": "X", "cop": "chang", "r": no_res()}));
                    break;
                }
            }
        }
    }
    // finish a consumer operation that is still parked, then stop the consumer thread
    while c_mid.is_some() {
        let _ = c_grant_tx.send(());
        match c_msg_rx.recv_timeout(Duration::from_secs(20)) {
            Ok(CMsg::Yield(_)) => {}
            _ => c_mid = None,
        }
    }
    drop(c_cmd_tx);
    let _ = c_handle.join();
    // ---- final facts about the whole body (C09 / C17)
    let acc = ctl.shared.lock().unwrap().accepted.clone();
    let mut fin = json!({"ev": "final", "delivered": delivered.len(), "accepted": acc.len(), "term": term, "alive": alive,
                         "gz": is_gz, "identical": delivered == acc});
    if is_gz {
        fin["dec"] = dec_facts(&delivered, &acc);
    } else {
        // is the raw body accidentally a gzip member?  (C17: coding matches header)
        fin["looks_gzip"] = json!(delivered.len() >= 2 && delivered[0] == 0x1f && delivered[1] == 0x8b);
    }
    out.emit(fin);
    // let the producer thread finish if it is still parked (diverged/aborted runs)
    if let Some(h) = handle {
        while ctl.psite.is_some() {
            let _ = ctl.to_p.send(());
            match wait_p(&ctl) {
                Ok(Some(s)) => ctl.psite = Some(s),
                _ => ctl.psite = None,
            }
        }
        let _ = h.join();
    }
}

fn dec_facts(bytes: &[u8], accepted: &[u8]) -> Value {
    let f = gzdec::decode(bytes);
    let lcp = f.decoded.iter().zip(accepted.iter()).take_while(|(a, b)| a == b).count();
    json!({"header_ok": f.header_ok, "decoded_len": f.decoded.len(), "lcp": lcp, "deflate_done": f.deflate_done,
           "corrupt": f.corrupt, "trailer": f.trailer_present, "crc_ok": f.crc_ok, "isize_ok": f.isize_ok,
           "trailing": f.trailing, "accepted": accepted.len()})
}

/// After a producer step that completed a successful flush on a gzip writer: what a streaming
/// decoder reproduces from the frames available so far (delivered + queued).
fn flush_facts(e: &mut Value, ctl: &Ctl, delivered: &[u8], probe: &http_serve::verif::Probe<BoxError>, gz: bool) {
    if !gz {
        return;
    }
    let flushed_ok = e["done"].as_array().map(|d| d.iter().any(|o| o["op"] == "flush" && o["res"] == "ok")).unwrap_or(false);
    if !flushed_ok {
        return;
    }
    let mut avail = delivered.to_vec();
    avail.extend_from_slice(&probe.queued_bytes());
    let acc = ctl.shared.lock().unwrap().accepted.clone();
    e["fdec"] = dec_facts(&avail, &acc);
}

fn wait_p(ctl: &Ctl) -> Result<Option<String>, String> {
    match ctl.from_p.recv_timeout(Duration::from_secs(20)) {
        Ok(PMsg::Yield(s)) => Ok(Some(s)),
        Ok(PMsg::Finished) => Ok(None),
        Ok(PMsg::Panicked(m)) => Err(format!("ppanic: {m}")),
        Err(RecvTimeoutError::Timeout) => Err("phang".into()),
        Err(RecvTimeoutError::Disconnected) => Err("pgone".into()),
    }
}
