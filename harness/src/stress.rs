//! Free-running stress of streaming bodies: producer and consumer on real threads with no baton.
//!
//! The baton scheduler explores interleavings at hooked sites only.  This mode complements it for
//! lock / wake sites that carry no yield point (e.g. introduced by a later change).  Detection is
//! logical, not timing based: once the producer thread has *finished*, a consumer that is parked
//! without having been woken, while the Probe shows something deliverable, can never be woken any
//! more -- a lost wake-up.  No verdict depends on a timeout.

use bytes::{Buf, Bytes};
use http_body::Body as _;
use serde_json::{json, Value};
use std::io::Write;
use std::pin::Pin;
use std::sync::atomic::{AtomicBool, AtomicUsize, Ordering};
use std::sync::{Arc, Condvar, Mutex};
use std::task::{Context, Poll, Wake, Waker};

type BoxError = Box<dyn std::error::Error + Send + Sync>;

struct Sig {
    m: Mutex<(bool, bool)>, // (woken, producer finished)
    cv: Condvar,
}

struct SigWaker(Arc<Sig>);
impl Wake for SigWaker {
    fn wake(self: Arc<Self>) {
        self.wake_by_ref()
    }
    fn wake_by_ref(self: &Arc<Self>) {
        let mut g = self.0.m.lock().unwrap();
        g.0 = true;
        self.0.cv.notify_all();
    }
}

pub fn run_stress(case: &Value) -> Value {
    let cap = case["cap"].as_u64().unwrap_or(4) as usize;
    let iters = case["stress"].as_u64().unwrap_or(100);
    let prog: Vec<(String, u64)> = case["prog"]
        .as_array()
        .map(|a| a.iter().map(|o| (o[0].as_str().unwrap_or("").to_string(), o[1].as_u64().unwrap_or(0))).collect())
        .unwrap_or_default();
    let (mut stuck, mut mismatch, mut panics, mut clean, mut errors) = (0u64, 0u64, 0u64, 0u64, 0u64);
    for it in 0..iters {
        let req = http::Request::builder().uri("/").body(()).unwrap();
        let (resp, writer) = http_serve::streaming_body(&req).with_chunk_size(cap).build::<Bytes, BoxError>();
        let Some(mut w) = writer else { continue };
        let mut body = Box::pin(resp.into_body());
        let probe = body.verif_probe().unwrap();
        let sig = Arc::new(Sig { m: Mutex::new((false, false)), cv: Condvar::new() });
        let wakers = [Waker::from(Arc::new(SigWaker(sig.clone()))), Waker::from(Arc::new(SigWaker(sig.clone())))];
        let accepted = Arc::new(AtomicUsize::new(0));
        let aborted = Arc::new(AtomicBool::new(false));
        let (acc2, ab2, sig2, prog2) = (accepted.clone(), aborted.clone(), sig.clone(), prog.clone());
        let h = std::thread::spawn(move || {
            let ok = std::panic::catch_unwind(std::panic::AssertUnwindSafe(|| {
                let mut pos = 0u64;
                for (op, n) in &prog2 {
                    match op.as_str() {
                        "write" => {
                            let data: Vec<u8> = (0..*n).map(|i| ((pos + i) % 251) as u8).collect();
                            if let Ok(k) = w.write(&data) {
                                pos += k as u64;
                                acc2.fetch_add(k, Ordering::SeqCst);
                            }
                        }
                        "flush" => {
                            let _ = w.flush();
                        }
                        "abort" => {
                            ab2.store(true, Ordering::SeqCst);
                            w.abort("aborted by harness".into());
                        }
                        "wait" => std::thread::yield_now(),
                        _ => {}
                    }
                }
                drop(w);
            }))
            .is_ok();
            let mut g = sig2.m.lock().unwrap();
            g.1 = true;
            sig2.cv.notify_all();
            ok
        });
        let mut delivered: Vec<u8> = Vec::new();
        let mut polls = 0u64;
        let outcome = loop {
            polls += 1;
            if polls > 100_000 {
                break "maxpolls";
            }
            sig.m.lock().unwrap().0 = false;
            let mut cx = Context::from_waker(&wakers[(polls % 2) as usize]);
            match std::panic::catch_unwind(std::panic::AssertUnwindSafe(|| Pin::as_mut(&mut body).poll_frame(&mut cx))) {
                Err(_) => break "panic",
                Ok(Poll::Ready(None)) => break "end",
                Ok(Poll::Ready(Some(Err(_)))) => break "err",
                Ok(Poll::Ready(Some(Ok(f)))) => {
                    if let Ok(mut d) = f.into_data() {
                        let mut v = vec![0u8; d.remaining()];
                        d.copy_to_slice(&mut v);
                        delivered.extend_from_slice(&v);
                    }
                }
                Ok(Poll::Pending) => {
                    // occasionally re-poll spuriously instead of parking
                    if (it + polls) % 7 == 0 {
                        continue;
                    }
                    let mut g = sig.m.lock().unwrap();
                    while !g.0 && !g.1 {
                        g = sig.cv.wait(g).unwrap();
                    }
                    if !g.0 {
                        // producer finished, we were not woken: nobody will ever wake us
                        drop(g);
                        let s = probe.snapshot(&[]);
                        let deliverable = s.state == "err" || (s.state == "ok" && (!s.ready.is_empty() || s.writer_dropped));
                        if deliverable {
                            break "stuck";
                        }
                        break "idle";
                    }
                }
            }
        };
        let pok = h.join().unwrap_or(false);
        if !pok {
            panics += 1;
        }
        match outcome {
            "stuck" | "maxpolls" => stuck += 1,
            "panic" => panics += 1,
            "end" => {
                clean += 1;
                let acc = accepted.load(Ordering::SeqCst);
                let want: Vec<u8> = (0..acc as u64).map(|i| (i % 251) as u8).collect();
                if !aborted.load(Ordering::SeqCst) && delivered != want {
                    mismatch += 1;
                }
                if aborted.load(Ordering::SeqCst) {
                    mismatch += 1; // abort must never end cleanly
                }
            }
            "err" => {
                errors += 1;
                if !aborted.load(Ordering::SeqCst) {
                    mismatch += 1;
                }
            }
            _ => stuck += 1, // idle: writer gone but nothing deliverable and no terminal event
        }
    }
    json!({"ev": "stress", "case": case["id"], "iters": iters, "stuck": stuck, "mismatch": mismatch, "panics": panics,
           "clean": clean, "errors": errors})
}
