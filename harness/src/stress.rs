//! Free-running stress of streaming bodies: producer and consumer on real threads with no baton.
//!
//! The baton scheduler explores interleavings at hooked sites only and never makes a lock
//! *contended*.  This mode complements it: real contention, lock/wake sites without yield point.
//! Every recorded fact is decided by a logical condition, never by a timeout:
//!   stuck          the producer thread has finished, the consumer is parked and was never woken,
//!                  and the Probe shows something deliverable: nobody can wake it any more
//!   mismatch       clean end with bytes != accepted bytes, clean end after abort, error without abort
//!   flush_private  flush() returned Ok and the writer's private buffer is not empty
//!   write_zero     write(non-empty) on a writer that never failed returned Ok(0)
//!   ok_after_drop  the producer observed (SeqCst) that the body had been dropped, then a flush of
//!                  buffered bytes / a chunk-publishing write still returned Ok
//!   eos_then_more  is_end_stream() returned true and a later poll delivered data or an error

use bytes::{Buf, Bytes};
use http_body::Body as _;
use serde_json::{json, Value};
use std::io::Write;
use std::pin::Pin;
use std::sync::atomic::{AtomicBool, AtomicUsize, Ordering};
use std::sync::{Arc, Condvar, Mutex};
use std::task::{Context, Poll, Wake, Waker};

type BoxError = Box<dyn std::error::Error + Send + Sync>;

struct Sig {
    m: Mutex<(bool, bool)>, // (woken, producer finished)
    cv: Condvar,
}

struct SigWaker(Arc<Sig>);
impl Wake for SigWaker {
    fn wake(self: Arc<Self>) {
        self.wake_by_ref()
    }
    fn wake_by_ref(self: &Arc<Self>) {
        let mut g = self.0.m.lock().unwrap();
        g.0 = true;
        self.0.cv.notify_all();
    }
}

#[derive(Default)]
struct PFacts {
    flush_private: u64,
    write_zero: u64,
    ok_after_drop: u64,
    panicked: bool,
}

/// Two bodies on one thread: body A's consumer is parked on a waker that, when woken, forwards into body
/// B's writer right there (a tee / proxy polled inline by its waker); B's consumer is parked too.  A's
/// producer then publishes.  Returns true if B's consumer was NOT woken although B got a flush / an abort.
fn nested_wake_lost(abort: bool) -> bool {
    struct CountWaker(Arc<AtomicUsize>);
    impl Wake for CountWaker {
        fn wake(self: Arc<Self>) {
            self.0.fetch_add(1, Ordering::SeqCst);
        }
    }
    struct TeeWaker {
        wb: Mutex<Option<http_serve::BodyWriter<Bytes, BoxError>>>,
        abort: bool,
    }
    impl Wake for TeeWaker {
        fn wake(self: Arc<Self>) {
            self.wake_by_ref()
        }
        fn wake_by_ref(self: &Arc<Self>) {
            if let Ok(mut g) = self.wb.try_lock() {
                if let Some(w) = g.as_mut() {
                    if self.abort {
                        w.abort("aborted by the tee".into());
                    } else {
                        let _ = w.write_all(b"zz");
                        let _ = w.flush();
                    }
                }
            }
        }
    }
    let r = std::panic::catch_unwind(|| {
        let req = http::Request::builder().uri("/").body(()).unwrap();
        let (resp_b, wb) = http_serve::streaming_body(&req).with_chunk_size(4).build::<Bytes, BoxError>();
        let (resp_a, wa) = http_serve::streaming_body(&req).with_chunk_size(4).build::<Bytes, BoxError>();
        let (Some(wb), Some(mut wa)) = (wb, wa) else { return false };
        let mut body_b = Box::pin(resp_b.into_body());
        let mut body_a = Box::pin(resp_a.into_body());
        let hits_b = Arc::new(AtomicUsize::new(0));
        let waker_b = Waker::from(Arc::new(CountWaker(hits_b.clone())));
        let waker_a = Waker::from(Arc::new(TeeWaker { wb: Mutex::new(Some(wb)), abort }));
        let parked_b = matches!(Pin::as_mut(&mut body_b).poll_frame(&mut Context::from_waker(&waker_b)), Poll::Pending);
        let parked_a = matches!(Pin::as_mut(&mut body_a).poll_frame(&mut Context::from_waker(&waker_a)), Poll::Pending);
        if !parked_a || !parked_b {
            return false;
        }
        let _ = wa.write_all(b"ab");
        let _ = wa.flush();
        hits_b.load(Ordering::SeqCst) == 0
    });
    r.unwrap_or(true)
}

pub fn run_stress(case: &Value) -> Value {
    let cap = case["cap"].as_u64().unwrap_or(4) as usize;
    let iters = case["stress"].as_u64().unwrap_or(100);
    let cdrop = case["cdrop"].as_bool().unwrap_or(false);
    let prog: Vec<(String, u64)> = case["prog"]
        .as_array()
        .map(|a| a.iter().map(|o| (o[0].as_str().unwrap_or("").to_string(), o[1].as_u64().unwrap_or(0))).collect())
        .unwrap_or_default();
    let (mut stuck, mut mismatch, mut panics, mut clean, mut errors) = (0u64, 0u64, 0u64, 0u64, 0u64);
    let (mut flush_private, mut write_zero, mut ok_after_drop, mut eos_then_more) = (0u64, 0u64, 0u64, 0u64);
    for it in 0..iters {
        let gz = case["ae"].as_str() == Some("gzip");
        let mut rb = http::Request::builder().uri("/");
        if gz {
            rb = rb.header("accept-encoding", "gzip");
        }
        let req = rb.body(()).unwrap();
        let (resp, writer) = http_serve::streaming_body(&req).with_chunk_size(cap).build::<Bytes, BoxError>();
        let Some(mut w) = writer else { continue };
        let mut body = Some(Box::pin(resp.into_body()));
        let probe = body.as_ref().unwrap().verif_probe().unwrap();
        let sig = Arc::new(Sig { m: Mutex::new((false, false)), cv: Condvar::new() });
        let wakers = [Waker::from(Arc::new(SigWaker(sig.clone()))), Waker::from(Arc::new(SigWaker(sig.clone())))];
        let accepted = Arc::new(AtomicUsize::new(0));
        let aborted = Arc::new(AtomicBool::new(false));
        let cdropped = Arc::new(AtomicBool::new(false));
        let (acc2, ab2, sig2, prog2, cd2) = (accepted.clone(), aborted.clone(), sig.clone(), prog.clone(), cdropped.clone());
        let h = std::thread::spawn(move || {
            let mut f = PFacts::default();
            let r = std::panic::catch_unwind(std::panic::AssertUnwindSafe(|| {
                let mut pos = 0u64;
                let mut failed = false;
                let mut f = PFacts::default();
                for (op, n) in &prog2 {
                    let gone = cd2.load(Ordering::SeqCst);
                    let before = w.verif_buffered().map(|b| b as i64).unwrap_or(-1);
                    match op.as_str() {
                        "write" => {
                            let data: Vec<u8> = (0..*n).map(|i| ((pos + i) % 251) as u8).collect();
                            match w.write(&data) {
                                Ok(k) => {
                                    pos += k as u64;
                                    acc2.fetch_add(k, Ordering::SeqCst);
                                    if k == 0 && *n > 0 && !failed && !gone {
                                        f.write_zero += 1;
                                    }
                                    let after = w.verif_buffered().map(|b| b as i64).unwrap_or(-1);
                                    if gone && before >= 0 && after != before + k as i64 {
                                        f.ok_after_drop += 1; // published a chunk into a dropped body
                                    }
                                }
                                Err(_) => failed = true,
                            }
                        }
                        "flush" => match w.flush() {
                            Ok(()) => {
                                if w.verif_buffered().unwrap_or(0) > 0 {
                                    f.flush_private += 1;
                                }
                                if gone && before > 0 {
                                    f.ok_after_drop += 1;
                                }
                            }
                            Err(_) => failed = true,
                        },
                        "abort" => {
                            ab2.store(true, Ordering::SeqCst);
                            w.abort("aborted by harness".into());
                            failed = true;
                        }
                        "wait" => std::thread::yield_now(),
                        _ => {}
                    }
                }
                if it % 3 == 2 {
                    let _ = std::panic::catch_unwind(std::panic::AssertUnwindSafe(move || {
                        let _held = w;
                        panic!("producer panics with the writer alive");
                    }));
                } else {
                    drop(w);
                }
                f
            }));
            match r {
                Ok(x) => f = x,
                Err(_) => f.panicked = true,
            }
            let mut g = sig2.m.lock().unwrap();
            g.1 = true;
            sig2.cv.notify_all();
            f
        });
        let mut delivered: Vec<u8> = Vec::new();
        let mut polls = 0u64;
        let mut eos_said = false;
        let drop_at = if cdrop { 1 + (it % 5) } else { u64::MAX };
        let outcome = loop {
            polls += 1;
            if polls > 100_000 {
                break "maxpolls";
            }
            if polls == drop_at {
                if it % 2 == 0 {
                    drop(body.take());
                } else {
                    // dropped during panic unwinding
                    let b = body.take();
                    let _ = std::panic::catch_unwind(std::panic::AssertUnwindSafe(move || {
                        let _held = b;
                        panic!("unwinding with the body alive");
                    }));
                }
                cdropped.store(true, Ordering::SeqCst);
                break "dropped";
            }
            let b = body.as_mut().unwrap();
            if (it + polls) % 3 == 0 {
                match std::panic::catch_unwind(std::panic::AssertUnwindSafe(|| (b.is_end_stream(), b.size_hint()))) {
                    Ok((e, _)) => eos_said = eos_said || e,
                    Err(_) => break "panic",
                }
            }
            sig.m.lock().unwrap().0 = false;
            let mut cx = Context::from_waker(&wakers[(polls % 2) as usize]);
            match std::panic::catch_unwind(std::panic::AssertUnwindSafe(|| Pin::as_mut(b).poll_frame(&mut cx))) {
                Err(_) => break "panic",
                Ok(Poll::Ready(None)) => break "end",
                Ok(Poll::Ready(Some(Err(_)))) => {
                    if eos_said {
                        eos_then_more += 1;
                    }
                    break "err";
                }
                Ok(Poll::Ready(Some(Ok(f)))) => {
                    if let Ok(mut d) = f.into_data() {
                        let mut v = vec![0u8; d.remaining()];
                        d.copy_to_slice(&mut v);
                        if eos_said && !v.is_empty() {
                            eos_then_more += 1;
                        }
                        delivered.extend_from_slice(&v);
                    }
                }
                Ok(Poll::Pending) => {
                    // occasionally re-poll spuriously instead of parking
                    if (it + polls) % 7 == 0 {
                        continue;
                    }
                    if it % 2 == 1 {
                        // instead of parking at once, keep probing the flags for a while: real
                        // contention on the mutex with whatever the producer does next
                        for _ in 0..3000 {
                            match std::panic::catch_unwind(std::panic::AssertUnwindSafe(|| (b.is_end_stream(), b.size_hint()))) {
                                Ok((e, _)) => eos_said = eos_said || e,
                                Err(_) => break,
                            }
                            let g = sig.m.lock().unwrap();
                            if g.0 || g.1 || eos_said {
                                break;
                            }
                        }
                        if eos_said {
                            continue; // poll again: must not deliver data or an error any more
                        }
                    }
                    let mut g = sig.m.lock().unwrap();
                    while !g.0 && !g.1 {
                        g = sig.cv.wait(g).unwrap();
                    }
                    if !g.0 {
                        // producer finished, we were not woken: nobody will ever wake us
                        drop(g);
                        let s = probe.snapshot(&[]);
                        let deliverable = s.state == "err" || (s.state == "ok" && (!s.ready.is_empty() || s.writer_dropped));
                        break if deliverable { "stuck" } else { "idle" };
                    }
                }
            }
        };
        let pf = h.join().unwrap_or_else(|_| PFacts { panicked: true, ..Default::default() });
        if pf.panicked {
            panics += 1;
        }
        flush_private += pf.flush_private;
        write_zero += pf.write_zero;
        ok_after_drop += pf.ok_after_drop;
        match outcome {
            "stuck" | "maxpolls" | "idle" => stuck += 1,
            "panic" => panics += 1,
            "dropped" => {
                // the queue must have been released
                if !probe.snapshot(&[]).ready.is_empty() {
                    ok_after_drop += 1;
                }
            }
            "end" => {
                clean += 1;
                let acc = accepted.load(Ordering::SeqCst);
                let want: Vec<u8> = (0..acc as u64).map(|i| (i % 251) as u8).collect();
                // (gzip bodies are not byte-compared here; C09's decoder facts come from the baton runs)
                if aborted.load(Ordering::SeqCst) || (!gz && delivered != want) {
                    mismatch += 1;
                }
            }
            _ => {
                errors += 1;
                if !aborted.load(Ordering::SeqCst) {
                    mismatch += 1;
                }
            }
        }
    }
    let nested_lost = nested_wake_lost(false) as u64 + nested_wake_lost(true) as u64;
    json!({"ev": "stress", "case": case["id"], "iters": iters, "nested_lost": nested_lost, "stuck": stuck, "mismatch": mismatch, "panics": panics,
           "clean": clean, "errors": errors, "flush_private": flush_private, "write_zero": write_zero,
           "ok_after_drop": ok_after_drop, "eos_then_more": eos_then_more})
}
