//! Engine 4: `ChunkedReadFile` over real temporary files, with truncation injected between polls,
//! and the same entity served through `serve` with a Range header.

use crate::common::*;
use bytes::{Buf, Bytes};

use http_body::Body as _;
use http_serve::Entity;
use serde_json::{json, Value};
use std::os::unix::fs::MetadataExt;
use std::pin::Pin;
use std::task::Poll;


type BoxError = Box<dyn std::error::Error + Send + Sync>;
type Crf = http_serve::ChunkedReadFile<Bytes, BoxError>;

fn content(n: u64) -> Vec<u8> {
    (0..n).map(|i| (i % 251) as u8).collect()
}

fn runs(v: &[u8]) -> Vec<Value> {
    let mut out = Vec::new();
    let mut i = 0;
    while i < v.len() {
        let mut n = 1;
        while i + n < v.len() && v[i + n] as u16 == (v[i + n - 1] as u16 + 1) % 251 && v[i + n - 1] < 251 {
            n += 1;
        }
        out.push(json!([v[i], n]));
        i += n;
    }
    out
}

fn etag_facts(e: &Option<http::HeaderValue>) -> Value {
    match e {
        None => json!({"k": "none"}),
        Some(v) => {
            let b = v.as_bytes();
            json!({"k": "tag", "v": text_or_hex(b), "q0": b.first() == Some(&b'"'), "qn": b.len() >= 2 && b.last() == Some(&b'"'),
                   "inner": if b.len() >= 2 { b[1..b.len() - 1].iter().filter(|&&c| c == b'"').count() } else { 0 },
                   "weak": b.starts_with(b"W/"),
                   "vchar": b.iter().all(|&c| c == 0x21 || (0x23..=0x7e).contains(&c) || c >= 0x80 || c == b'"')})
        }
    }
}

fn ver_of(m: &std::fs::Metadata) -> Value {
    json!(format!("{}:{}:{}:{}", m.ino(), m.len(), m.mtime(), m.mtime_nsec()))
}

pub fn run(cases_path: &str, out_path: &str) {
    silence_panics();
    let cases = read_cases(cases_path);
    let mut out = Out::create(out_path);
    let dir = std::path::PathBuf::from(
        std::env::var("VH_TMP").unwrap_or_else(|_| "/verif/work/files".to_string()),
    )
    .join(format!("f{}", std::process::id()));
    let _ = std::fs::remove_dir_all(&dir);
    std::fs::create_dir_all(&dir).expect("temp dir");
    let rt = tokio::runtime::Builder::new_multi_thread().worker_threads(2).build().expect("runtime");
    for case in &cases {
        let d = dir.clone();
        let c = case.clone();
        let events = rt.block_on(async move { tokio::spawn(async move { run_case(&d, &c).await }).await.unwrap() });
        for e in events {
            out.emit(e);
        }
    }
    let _ = std::fs::remove_dir_all(&dir);
    let n = out.events;
    out.finish();
    println!("{{\"cases\": {}, \"events\": {}}}", cases.len(), n);
}

fn make_file(p: &std::path::Path, size: u64, mt: (i64, u32)) -> std::fs::File {
    std::fs::write(p, content(size)).expect("write file");
    let f = std::fs::OpenOptions::new().read(true).write(true).open(p).expect("open rw");
    f.set_modified(systime(mt.0, mt.1)).expect("set mtime");
    f
}

/// ETag of a file entity; a panic inside `etag()` is data.
fn crf_etag(c: &Crf) -> Value {
    match catch(|| c.etag()) {
        Ok(e) => etag_facts(&e),
        Err(m) => json!({"k": "panic", "msg": m}),
    }
}

async fn run_case(dir: &std::path::Path, case: &Value) -> Vec<Value> {
    let mut ev = Vec::new();
    let kind = case["kind"].as_str().unwrap_or("stream");
    ev.push(json!({"ev": "fcase", "case": case["id"], "kind": kind}));
    let p = dir.join("f");
    let _ = std::fs::remove_file(&p);
    match kind {
        "nonregular" => {
            let target = case["target"].as_str().unwrap_or("dir");
            use std::os::unix::io::FromRawFd;
            let f = match target {
                "devnull" => std::fs::File::open("/dev/null"),
                "devzero" => std::fs::File::open("/dev/zero"),
                // one end of a socket pair, as a File
                "socket" => std::os::unix::net::UnixStream::pair()
                    .map(|(a, _b)| std::fs::File::from(std::os::fd::OwnedFd::from(a))),
                // a handle onto a symbolic link itself (O_PATH | O_NOFOLLOW)
                "symlink_handle" => {
                    let l = dir.join("lnk");
                    let _ = std::fs::remove_file(&l);
                    let _ = std::os::unix::fs::symlink("/dev/null", &l);
                    let c = std::ffi::CString::new(l.to_string_lossy().as_bytes()).unwrap();
                    let fd = unsafe { libc::open(c.as_ptr(), libc::O_PATH | libc::O_NOFOLLOW | libc::O_CLOEXEC) };
                    if fd < 0 { Err(std::io::Error::last_os_error()) } else { Ok(unsafe { std::fs::File::from_raw_fd(fd) }) }
                }
                // a FIFO, opened without blocking
                "fifo" => {
                    let l = dir.join("fifo");
                    let _ = std::fs::remove_file(&l);
                    let c = std::ffi::CString::new(l.to_string_lossy().as_bytes()).unwrap();
                    unsafe { libc::mkfifo(c.as_ptr(), 0o600) };
                    let fd = unsafe { libc::open(c.as_ptr(), libc::O_RDONLY | libc::O_NONBLOCK | libc::O_CLOEXEC) };
                    if fd < 0 { Err(std::io::Error::last_os_error()) } else { Ok(unsafe { std::fs::File::from_raw_fd(fd) }) }
                }
                _ => std::fs::File::open(dir),
            };
            let r = f.map_err(|e| e.to_string()).and_then(|f| {
                catch(|| Crf::new(f, http::HeaderMap::new())).map_err(|m| format!("panic: {m}")).and_then(|r| r.map(|_| ()).map_err(|e| e.to_string()))
            });
            ev.push(json!({"ev": "fnonreg", "target": target, "refused": r.is_err(),
                           "panic": r.as_ref().err().map(|e| e.starts_with("panic")).unwrap_or(false)}));
        }
        "concurrent" => {
            // clones of one ChunkedReadFile streamed concurrently on several OS threads: every chunk
            // must still be exactly the file bytes at its offset (a shared file cursor would show)
            let size = case["size"].as_u64().unwrap_or(300_000);
            let threads = case["threads"].as_u64().unwrap_or(4);
            let reps = case["reps"].as_u64().unwrap_or(40);
            drop(make_file(&p, size, (1_000_000_000, 7)));
            let crf = std::sync::Arc::new(Crf::new(std::fs::File::open(&p).unwrap(), http::HeaderMap::new()).unwrap());
            let mut hs = Vec::new();
            for t in 0..threads {
                let c = crf.clone();
                hs.push(std::thread::spawn(move || {
                    let rt = tokio::runtime::Builder::new_multi_thread().worker_threads(1).build().unwrap();
                    rt.block_on(async move {
                        tokio::spawn(async move {
                            let (mut bad, mut chunks, mut short) = (0u64, 0u64, 0u64);
                            let waker = std::task::Waker::from(std::sync::Arc::new(crate::serve_eng::FlagWaker(
                                std::sync::atomic::AtomicBool::new(false))));
                            for r in 0..reps {
                                let a = ((t * 7919 + r * 104_729) % size.max(1)).min(size);
                                let b = (a + 1 + (r * 50_021) % 150_000).min(size);
                                let mut st = c.get_range(a..b);
                                let mut pos = a;
                                loop {
                                    let x = std::future::poll_fn(|_| {
                                        let mut cx = std::task::Context::from_waker(&waker);
                                        Poll::Ready(st.as_mut().poll_next(&mut cx))
                                    })
                                    .await;
                                    match x {
                                        Poll::Ready(Some(Ok(mut d))) => {
                                            let mut v = vec![0u8; d.remaining()];
                                            d.copy_to_slice(&mut v);
                                            chunks += 1;
                                            if v.iter().enumerate().any(|(i, &y)| y != ((pos + i as u64) % 251) as u8) {
                                                bad += 1;
                                            }
                                            pos += v.len() as u64;
                                        }
                                        Poll::Ready(Some(Err(_))) => { short += 1; break; }
                                        Poll::Ready(None) => { if pos != b { short += 1; } break; }
                                        Poll::Pending => {}
                                    }
                                }
                            }
                            (bad, chunks, short)
                        })
                        .await
                        .unwrap_or((0, 0, 1))
                    })
                }));
            }
            let (mut bad, mut chunks, mut short) = (0u64, 0u64, 0u64);
            for h in hs {
                let (x, y, z) = h.join().unwrap_or((0, 0, 1));
                bad += x; chunks += y; short += z;
            }
            ev.push(json!({"ev": "fconc", "threads": threads, "streams": threads * reps, "chunks": chunks,
                           "bad_chunks": bad, "short_or_failed": short}));
        }
        "oddfile" => {
            // a regular file whose reads come back short without being at end of file (kernel-generated
            // files under /sys do that: one page or less per read).  Its content is not ours, so the
            // harness reads it once with std (read_to_end) and records, for each stream and for each
            // single-range response, whether the bytes equal that reference at the same offsets.
            let path = case["path"].as_str().unwrap_or("/sys/kernel/btf/vmlinux");
            let reference = std::fs::File::open(path).ok().and_then(|mut f| {
                use std::io::Read;
                let mut v = Vec::new();
                f.read_to_end(&mut v).ok().map(|_| v)
            });
            let meta = std::fs::metadata(path).ok();
            let usable = match (&reference, &meta) {
                (Some(r), Some(m)) => m.is_file() && r.len() as u64 == m.len() && r.len() > 0,
                _ => false,
            };
            if !usable {
                ev.push(json!({"ev": "fskip", "why": "no such file here, or its size is not its length", "path": path}));
                return ev;
            }
            let reference = reference.unwrap();
            let size = reference.len() as u64;
            let open = || Crf::new(std::fs::File::open(path).unwrap(), http::HeaderMap::new());
            let waker = std::task::Waker::from(std::sync::Arc::new(crate::serve_eng::FlagWaker(std::sync::atomic::AtomicBool::new(false))));
            let (mut streams, mut chunks, mut bad, mut short, mut serve_bad, mut empty) = (0u64, 0u64, 0u64, 0u64, 0u64, 0u64);
            for r in case["ranges"].as_array().cloned().unwrap_or_default() {
                // ranges are given in permille of the length plus an offset, so that they fit any file
                let a = (size * r[0].as_u64().unwrap_or(0) / 1000 + r[1].as_u64().unwrap_or(0)).min(size);
                let b = (a + r[2].as_u64().unwrap_or(1)).min(size);
                let Ok(crf) = open() else { short += 1; continue };
                streams += 1;
                let mut st = crf.get_range(a..b);
                let mut pos = a;
                let mut polls = 0u64;
                loop {
                    polls += 1;
                    if polls > 64 + (b - a) / 16 {
                        short += 1;
                        break;
                    }
                    let x = std::future::poll_fn(|_| {
                        let mut cx = std::task::Context::from_waker(&waker);
                        Poll::Ready(catch(|| st.as_mut().poll_next(&mut cx)))
                    })
                    .await;
                    match x {
                        Ok(Poll::Ready(Some(Ok(mut d)))) => {
                            let mut v = vec![0u8; d.remaining()];
                            d.copy_to_slice(&mut v);
                            chunks += 1;
                            if v.is_empty() {
                                empty += 1;
                            }
                            let end = pos as usize + v.len();
                            if end > b as usize || reference[pos as usize..end] != v[..] {
                                bad += 1;
                            }
                            pos = end as u64;
                        }
                        Ok(Poll::Ready(Some(Err(_)))) | Err(_) => { short += 1; break; }
                        Ok(Poll::Ready(None)) => { if pos != b { short += 1; } break; }
                        Ok(Poll::Pending) => {}
                    }
                }
                if b > a {
                    let Ok(crf) = open() else { serve_bad += 1; continue };
                    let req = http::Request::builder().method("GET").uri("/")
                        .header("range", format!("bytes={}-{}", a, b - 1)).body(()).unwrap();
                    let resp = http_serve::serve(crf, &req);
                    let want_cr = format!("bytes {}-{}/{}", a, b - 1, size);
                    let head_ok = resp.status().as_u16() == 206
                        && resp.headers().get("content-range").map(|v| v.as_bytes() == want_cr.as_bytes()).unwrap_or(false);
                    let mut body = Box::pin(resp.into_body());
                    let mut got: Vec<u8> = Vec::new();
                    let mut ok = true;
                    let mut polls = 0u64;
                    loop {
                        polls += 1;
                        if polls > 64 + (b - a) / 16 { ok = false; break; }
                        let x = std::future::poll_fn(|_| {
                            let mut cx = std::task::Context::from_waker(&waker);
                            Poll::Ready(catch(|| Pin::as_mut(&mut body).poll_frame(&mut cx)))
                        })
                        .await;
                        match x {
                            Ok(Poll::Ready(Some(Ok(fr)))) => {
                                if let Ok(mut d) = fr.into_data() {
                                    let mut v = vec![0u8; d.remaining()];
                                    d.copy_to_slice(&mut v);
                                    got.extend_from_slice(&v);
                                }
                            }
                            Ok(Poll::Ready(None)) => break,
                            Ok(Poll::Pending) => {}
                            _ => { ok = false; break; }
                        }
                    }
                    if !head_ok || !ok || got[..] != reference[a as usize..b as usize] {
                        serve_bad += 1;
                    }
                }
            }
            ev.push(json!({"ev": "fcmp", "path": path, "size": limbs(size), "streams": streams, "chunks": chunks, "bad_chunks": bad,
                           "empty_chunks": empty, "short_or_failed": short, "serve_bad": serve_bad}));
        }
        "sparse" => {
            // a file of several GiB made of one hole (no data blocks): lengths and offsets beyond
            // 2^32, polled for its first few chunks only.  Every byte of it is zero.
            let size = case["size"].as_u64().unwrap_or(1 << 32);
            let a = case["a"].as_u64().unwrap_or(0);
            let b = case["b"].as_u64().unwrap_or(size);
            let npolls = case["polls"].as_u64().unwrap_or(4);
            let mt = (case["mt_s"].as_i64().unwrap_or(1_000_000_000), case["mt_ns"].as_u64().unwrap_or(0) as u32);
            let made = std::fs::File::create(&p).and_then(|f| {
                f.set_len(size)?;
                f.set_modified(systime(mt.0, mt.1))?;
                f.sync_all()?;
                f.metadata()
            });
            let sparse_ok = matches!(&made, Ok(m) if m.len() == size && m.blocks() < 1024);
            if !sparse_ok {
                let _ = std::fs::remove_file(&p);
                ev.push(json!({"ev": "fskip", "why": "no sparse files here", "path": p.to_string_lossy()}));
                return ev;
            }
            let f = std::fs::File::open(&p).unwrap();
            let meta = f.metadata().unwrap();
            let crf = match catch(|| Crf::new(f, http::HeaderMap::new())) {
                Ok(Ok(c)) => c,
                Ok(Err(e)) => { ev.push(json!({"ev": "fopen", "ok": false, "err": e.to_string()})); let _ = std::fs::remove_file(&p); return ev; }
                Err(m) => { ev.push(json!({"ev": "fopen", "ok": false, "err": format!("panic: {m}")})); let _ = std::fs::remove_file(&p); return ev; }
            };
            let (ls, lns) = crf.last_modified().map(secs_ns).unwrap_or((-1, 0));
            ev.push(json!({"ev": "fopen", "ok": true, "size": 0, "sizeL": limbs(size), "len": limbs(crf.len()), "lm_s": ls, "lm_ns": lns,
                           "mt_s": meta.mtime(), "mt_ns": meta.mtime_nsec(), "etag": crf_etag(&crf), "a": 0, "b": 0,
                           "aL": limbs(a), "bL": limbs(b), "sparse": true, "via": false}));
            let waker = std::task::Waker::from(std::sync::Arc::new(crate::serve_eng::FlagWaker(std::sync::atomic::AtomicBool::new(false))));
            let mut s = crf.get_range(a..b);
            let mut got = 0u64;
            for _ in 0..npolls {
                let r = std::future::poll_fn(|_| {
                    let mut cx = std::task::Context::from_waker(&waker);
                    Poll::Ready(catch(|| s.as_mut().poll_next(&mut cx)))
                })
                .await;
                match r {
                    Err(m) => { ev.push(json!({"ev": "fpoll", "res": "panic", "n": 0, "runs": [], "z": false, "msg": m})); break; }
                    Ok(Poll::Pending) => ev.push(json!({"ev": "fpoll", "res": "pending", "n": 0, "runs": [], "z": false})),
                    Ok(Poll::Ready(None)) => { ev.push(json!({"ev": "fpoll", "res": "end", "n": 0, "runs": [], "z": false})); break; }
                    Ok(Poll::Ready(Some(Err(e)))) => { ev.push(json!({"ev": "fpoll", "res": "err", "n": 0, "runs": [], "z": false, "msg": e.to_string()})); break; }
                    Ok(Poll::Ready(Some(Ok(mut d)))) => {
                        let mut v = vec![0u8; d.remaining()];
                        d.copy_to_slice(&mut v);
                        got += v.len() as u64;
                        ev.push(json!({"ev": "fpoll", "res": "data", "n": v.len(), "runs": [], "z": v.iter().all(|&c| c == 0)}));
                        if got > (1 << 27) {
                            break;
                        }
                    }
                }
            }
            drop(s);
            let _ = std::fs::remove_file(&p);
            ev.push(json!({"ev": "fend"}));
        }
        "echo" => {
            // two-request history over a real file (C14): validators copied verbatim from the first
            // response into the second request
            let size = case["size"].as_u64().unwrap_or(10);
            let mt = (case["mt_s"].as_i64().unwrap_or(1_000_000_000), case["mt_ns"].as_u64().unwrap_or(0) as u32);
            drop(make_file(&p, size, mt));
            let open = || Crf::new(std::fs::File::open(&p).unwrap(), http::HeaderMap::new()).unwrap();
            let req1 = http::Request::builder().method("GET").uri("/").body(()).unwrap();
            let r1 = http_serve::serve(open(), &req1);
            let mut b2 = http::Request::builder().method(case["emethod"].as_str().unwrap_or("GET")).uri("/");
            let mut applied = Vec::new();
            for e in case["echo"].as_array().cloned().unwrap_or_default() {
                let (src, dst) = match e.as_str().unwrap_or("") {
                    "inm" => ("etag", "if-none-match"),
                    "im" => ("etag", "if-match"),
                    "ir" => ("etag", "if-range"),
                    "ims" => ("last-modified", "if-modified-since"),
                    "ius" => ("last-modified", "if-unmodified-since"),
                    _ => continue,
                };
                if let Some(v) = r1.headers().get(src) {
                    b2 = b2.header(dst, v.clone());
                    applied.push(e.clone());
                    if dst == "if-range" {
                        b2 = b2.header("range", "bytes=0-0");
                    }
                }
            }
            let r2 = http_serve::serve(open(), &b2.body(()).unwrap());
            let lm1 = r1.headers().get("last-modified").and_then(|v| v.to_str().ok()).and_then(|s| httpdate::parse_http_date(s).ok())
                .map(|t| secs_ns(t).0).unwrap_or(-1);
            ev.push(json!({"ev": "fecho", "S": applied, "status1": r1.status().as_u16(), "status2": r2.status().as_u16(),
                           "lm1": lm1, "mt_s": mt.0, "mt_ns": mt.1, "size": size,
                           "etag": etag_facts(&r1.headers().get("etag").cloned())}));
        }
        "fresh" => {
            // the file's modification time is "now": instances opened at once, and again after a wait,
            // on the unmodified file
            let size = case["size"].as_u64().unwrap_or(20);
            std::fs::write(&p, content(size)).expect("write file");
            for round in 0..3 {
                if round == 2 {
                    std::thread::sleep(std::time::Duration::from_millis(case["wait_ms"].as_u64().unwrap_or(1100)));
                }
                let f = std::fs::File::open(&p).unwrap();
                let meta = f.metadata().unwrap();
                match catch(|| Crf::new(f, http::HeaderMap::new())) {
                    Ok(Ok(crf)) => {
                        let (ls, lns) = crf.last_modified().map(secs_ns).unwrap_or((-1, 0));
                        ev.push(json!({"ev": "fver", "op": "open", "ver": ver_of(&meta), "etag": crf_etag(&crf),
                                       "len": limbs(crf.len()), "flen": limbs(meta.len()), "lm_s": ls, "lm_ns": lns,
                                       "mt_s": meta.mtime(), "mt_ns": meta.mtime_nsec()}));
                    }
                    _ => ev.push(json!({"ev": "fver", "op": "open", "ver": ver_of(&meta), "etag": {"k": "error"}})),
                }
            }
        }
        "history" => {
            // a sequence of file-system operations on one path; after each, open and record
            // (version, etag)
            let size = case["size"].as_u64().unwrap_or(10);
            let mt = (case["mt_s"].as_i64().unwrap_or(1_000_000_000), case["mt_ns"].as_u64().unwrap_or(0) as u32);
            drop(make_file(&p, size, mt));
            let mut steps = vec![json!(["open"])];
            steps.extend(case["steps"].as_array().cloned().unwrap_or_default());
            for s in steps {
                match s[0].as_str().unwrap_or("") {
                    "open" => {}
                    "append" => {
                        use std::io::Write;
                        let mut f = std::fs::OpenOptions::new().append(true).open(&p).unwrap();
                        f.write_all(&content(s[1].as_u64().unwrap_or(1))).unwrap();
                        // keep mtime deterministic but different only if asked
                        f.set_modified(systime(mt.0, mt.1)).unwrap();
                    }
                    "touch" => {
                        let f = std::fs::OpenOptions::new().write(true).open(&p).unwrap();
                        // (a file system that cannot store this time: the step is skipped)
                        if f.set_modified(systime(s[1].as_i64().unwrap(), s[2].as_u64().unwrap() as u32)).is_err() {
                            continue;
                        }
                        let back = std::fs::metadata(&p).ok().and_then(|m| m.modified().ok()).map(secs_ns);
                        if back != Some((s[1].as_i64().unwrap(), s[2].as_u64().unwrap() as u32)) {
                            continue;
                        }
                    }
                    "rewrite" => {
                        // same length, same mtime, same inode: content change only (version unchanged)
                        let len = std::fs::metadata(&p).unwrap().len();
                        let m = std::fs::metadata(&p).unwrap().modified().unwrap();
                        std::fs::write(&p, vec![7u8; len as usize]).unwrap();
                        std::fs::OpenOptions::new().write(true).open(&p).unwrap().set_modified(m).unwrap();
                    }
                    "replace" => {
                        // new inode, same length and mtime
                        let len = std::fs::metadata(&p).unwrap().len();
                        let m = std::fs::metadata(&p).unwrap().modified().unwrap();
                        let q = dir.join("g");
                        std::fs::write(&q, content(len)).unwrap();
                        std::fs::OpenOptions::new().write(true).open(&q).unwrap().set_modified(m).unwrap();
                        // keep the old inode alive so the number cannot be reused immediately
                        let keep = std::fs::File::open(&p).unwrap();
                        std::fs::rename(&q, &p).unwrap();
                        std::mem::forget(keep);
                    }
                    _ => {}
                }
                let f = std::fs::File::open(&p).unwrap();
                let meta = f.metadata().unwrap();
                let r = catch(|| Crf::new(f, http::HeaderMap::new()));
                match r {
                    Ok(Ok(crf)) => {
                        let (ls, lns) = crf.last_modified().map(secs_ns).unwrap_or((-1, 0));
                        ev.push(json!({"ev": "fver", "op": s[0], "ver": ver_of(&meta), "etag": crf_etag(&crf),
                                       "len": limbs(crf.len()), "flen": limbs(meta.len()), "lm_s": ls, "lm_ns": lns,
                                       "mt_s": meta.mtime(), "mt_ns": meta.mtime_nsec()}));
                    }
                    _ => ev.push(json!({"ev": "fver", "op": s[0], "ver": ver_of(&meta), "etag": {"k": "error"}})),
                }
            }
        }
        _ => {
            let size = case["size"].as_u64().unwrap_or(10);
            let a = case["a"].as_u64().unwrap_or(0);
            let b = case["b"].as_u64().unwrap_or(size);
            let mt = (case["mt_s"].as_i64().unwrap_or(1_000_000_000), case["mt_ns"].as_u64().unwrap_or(0) as u32);
            let truncs: Vec<(u64, u64)> = case["trunc"]
                .as_array()
                .map(|t| t.iter().map(|x| (x[0].as_u64().unwrap_or(0), x[1].as_u64().unwrap_or(0))).collect())
                .unwrap_or_default();
            let wf = make_file(&p, size, mt);
            let f = std::fs::File::open(&p).unwrap();
            let meta = f.metadata().unwrap();
            let mut hdrs = http::HeaderMap::new();
            hdrs.insert("content-type", http::HeaderValue::from_static("application/x-test"));
            let crf = match catch(|| Crf::new(f, hdrs)) {
                Ok(Ok(c)) => c,
                Ok(Err(e)) => {
                    ev.push(json!({"ev": "fopen", "ok": false, "err": e.to_string()}));
                    return ev;
                }
                Err(m) => {
                    ev.push(json!({"ev": "fopen", "ok": false, "err": format!("panic: {m}")}));
                    return ev;
                }
            };
            let (ls, lns) = crf.last_modified().map(secs_ns).unwrap_or((-1, 0));
            ev.push(json!({"ev": "fopen", "ok": true, "size": size, "len": limbs(crf.len()), "lm_s": ls, "lm_ns": lns,
                           "mt_s": meta.mtime(), "mt_ns": meta.mtime_nsec(), "etag": crf_etag(&crf), "a": a, "b": b,
                           "sizeL": limbs(size), "aL": limbs(a), "bL": limbs(b), "sparse": false, "via": kind == "serve"}));
            let waker = std::task::Waker::from(std::sync::Arc::new(crate::serve_eng::FlagWaker(std::sync::atomic::AtomicBool::new(false))));
            let max_polls = 64 + 2 * ((b.saturating_sub(a)) / 65536 + 1);
            if kind == "serve" {
                let req = http::Request::builder().method("GET").uri("/")
                    .header("range", format!("bytes={}-{}", a, b.saturating_sub(1))).body(()).unwrap();
                let resp = http_serve::serve(crf, &req);
                let (parts, body) = resp.into_parts();
                let (h, _) = crate::serve_eng::project_head(parts.status.as_u16(), &parts.headers, &[]);
                ev.push(json!({"ev": "fhead", "h": h}));
                let mut body = Box::pin(body);
                let mut k = 0u64;
                loop {
                    for (bp, nl) in &truncs {
                        if *bp == k {
                            // only ever shrink (the property is about truncation, not rewriting)
                            let nl = (*nl).min(wf.metadata().unwrap().len());
                            wf.set_len(nl).unwrap();
                            ev.push(json!({"ev": "ftrunc", "len": nl}));
                        }
                    }
                    if k >= max_polls {
                        ev.push(json!({"ev": "fpoll", "res": "maxpolls", "n": 0, "runs": [], "z": false}));
                        break;
                    }
                    k += 1;
                    let r = std::future::poll_fn(|_| {
                        let mut cx = std::task::Context::from_waker(&waker);
                        Poll::Ready(catch(|| Pin::as_mut(&mut body).poll_frame(&mut cx)))
                    })
                    .await;
                    match r {
                        Err(m) => { ev.push(json!({"ev": "fpoll", "res": "panic", "n": 0, "runs": [], "z": false, "msg": m})); break; }
                        Ok(Poll::Pending) => ev.push(json!({"ev": "fpoll", "res": "pending", "n": 0, "runs": [], "z": false})),
                        Ok(Poll::Ready(None)) => { ev.push(json!({"ev": "fpoll", "res": "end", "n": 0, "runs": [], "z": false})); break; }
                        Ok(Poll::Ready(Some(Err(e)))) => { ev.push(json!({"ev": "fpoll", "res": "err", "n": 0, "runs": [], "z": false, "msg": e.to_string()})); break; }
                        Ok(Poll::Ready(Some(Ok(fr)))) => {
                            if let Ok(mut d) = fr.into_data() {
                                let mut v = vec![0u8; d.remaining()];
                                d.copy_to_slice(&mut v);
                                ev.push(json!({"ev": "fpoll", "res": "data", "n": v.len(), "runs": runs(&v), "z": false}));
                            }
                        }
                    }
                }
            } else {
                let mut s = crf.get_range(a..b);
                let mut k = 0u64;
                loop {
                    for (bp, nl) in &truncs {
                        if *bp == k {
                            // only ever shrink (the property is about truncation, not rewriting)
                            let nl = (*nl).min(wf.metadata().unwrap().len());
                            wf.set_len(nl).unwrap();
                            ev.push(json!({"ev": "ftrunc", "len": nl}));
                        }
                    }
                    if k >= max_polls {
                        ev.push(json!({"ev": "fpoll", "res": "maxpolls", "n": 0, "runs": [], "z": false}));
                        break;
                    }
                    k += 1;
                    let r = std::future::poll_fn(|_| {
                        let mut cx = std::task::Context::from_waker(&waker);
                        Poll::Ready(catch(|| s.as_mut().poll_next(&mut cx)))
                    })
                    .await;
                    match r {
                        Err(m) => { ev.push(json!({"ev": "fpoll", "res": "panic", "n": 0, "runs": [], "z": false, "msg": m})); break; }
                        Ok(Poll::Pending) => ev.push(json!({"ev": "fpoll", "res": "pending", "n": 0, "runs": [], "z": false})),
                        Ok(Poll::Ready(None)) => { ev.push(json!({"ev": "fpoll", "res": "end", "n": 0, "runs": [], "z": false})); break; }
                        Ok(Poll::Ready(Some(Err(e)))) => { ev.push(json!({"ev": "fpoll", "res": "err", "n": 0, "runs": [], "z": false, "msg": e.to_string()})); break; }
                        Ok(Poll::Ready(Some(Ok(mut d)))) => {
                            let mut v = vec![0u8; d.remaining()];
                            d.copy_to_slice(&mut v);
                            ev.push(json!({"ev": "fpoll", "res": "data", "n": v.len(), "runs": runs(&v), "z": false}));
                        }
                    }
                }
                // the same instance, after whatever happened to the file meanwhile: its metadata are
                // those of construction time
                drop(s);
                let (ls2, lns2) = catch(|| crf.last_modified()).ok().flatten().map(secs_ns).unwrap_or((i64::MIN / 4, 0));
                ev.push(json!({"ev": "fmeta", "len": limbs(catch(|| crf.len()).unwrap_or(u64::MAX)), "lm_s": ls2, "lm_ns": lns2,
                               "etag": crf_etag(&crf)}));
            }
            ev.push(json!({"ev": "fend"}));
        }
    }
    ev
}
