//! Scripted entity: position-dependent content, scripted (possibly dishonest) range streams,
//! and a log of every `get_range` call and every item handed out.

use crate::common::limbs;
use bytes::Bytes;
use futures_core::Stream;
use http::header::{HeaderMap, HeaderName, HeaderValue};
use serde_json::{json, Value};
use std::ops::Range;
use std::pin::Pin;
use std::sync::{Arc, Mutex};
use std::task::{Context, Poll};
use std::time::SystemTime;

pub type BoxError = Box<dyn std::error::Error + Send + Sync>;

/// Chunk types an entity can hand out.  `Bytes` is contiguous; `SegData` is a `Buf` made of
/// several segments, so `chunk().len() < remaining()` -- `Entity::Data` may be any `Buf`.
pub trait ChunkData: bytes::Buf + From<Vec<u8>> + From<&'static [u8]> + Send + Sync + 'static {
    fn from_content(v: Vec<u8>) -> Self;
    /// A chunk that *claims* `claim` bytes without holding them (a virtual filler `Buf`).  Types that
    /// materialise their bytes hand out a short honest chunk instead; only cases with `seg` use it.
    fn from_virtual(claim: u64) -> Self {
        Self::from_content(content(0, claim.min(16) as usize))
    }
}

impl ChunkData for Bytes {
    fn from_content(v: Vec<u8>) -> Self {
        Bytes::from(v)
    }
}

/// `.1`: bytes claimed beyond the real segments (zeros, never materialised as a whole)
pub struct SegData(std::collections::VecDeque<Bytes>, usize);

static ZEROS: [u8; 4096] = [0u8; 4096];

impl bytes::Buf for SegData {
    fn remaining(&self) -> usize {
        self.0.iter().map(|b| b.len()).sum::<usize>().saturating_add(self.1)
    }
    fn chunk(&self) -> &[u8] {
        self.0.iter().find(|b| !b.is_empty()).map(|b| &b[..]).unwrap_or(&ZEROS[..self.1.min(ZEROS.len())])
    }
    fn advance(&mut self, mut cnt: usize) {
        while cnt > 0 {
            if self.0.is_empty() && self.1 >= cnt {
                self.1 -= cnt;
                return;
            }
            let Some(front) = self.0.front_mut() else { panic!("advance past end") };
            if front.len() <= cnt {
                cnt -= front.len();
                self.0.pop_front();
            } else {
                bytes::Buf::advance(front, cnt);
                cnt = 0;
            }
        }
    }
}

impl From<Vec<u8>> for SegData {
    fn from(v: Vec<u8>) -> Self {
        SegData::from_content(v)
    }
}

impl From<&'static [u8]> for SegData {
    fn from(v: &'static [u8]) -> Self {
        SegData::from_content(v.to_vec())
    }
}

impl ChunkData for SegData {
    fn from_virtual(claim: u64) -> Self {
        SegData(std::collections::VecDeque::new(), claim.min(usize::MAX as u64) as usize)
    }
    /// Splits the content into up to three segments (1 byte, half of the rest, the rest).
    fn from_content(v: Vec<u8>) -> Self {
        let b = Bytes::from(v);
        let mut q = std::collections::VecDeque::new();
        if b.len() >= 3 {
            let mid = 1 + (b.len() - 1) / 2;
            q.push_back(b.slice(0..1));
            q.push_back(b.slice(1..mid));
            q.push_back(b.slice(mid..));
        } else if b.len() == 2 {
            q.push_back(b.slice(0..1));
            q.push_back(b.slice(1..2));
        } else {
            q.push_back(b);
        }
        SegData(q, 0)
    }
}

pub fn content_byte(i: u64) -> u8 {
    (i % 251) as u8
}

pub fn content(start: u64, n: usize) -> Vec<u8> {
    (0..n as u64).map(|k| content_byte(start.wrapping_add(k))).collect()
}

#[derive(Clone, Debug)]
pub struct Script {
    pub items: Vec<(char, u64)>,
    pub tail: String,
    pub chunk: u64,
    /// Implement `Stream::size_hint` exactly (number of items still to come), as `stream::iter`
    /// and friends do, instead of the default `(0, None)`.
    pub hint: bool,
}

impl Script {
    pub fn honest() -> Script {
        Script {
            items: Vec::new(),
            tail: "honest".into(),
            chunk: 1 << 20,
            hint: false,
        }
    }
    pub fn from_json(v: &Value) -> Script {
        let items = v
            .get("items")
            .and_then(|i| i.as_array())
            .map(|a| {
                a.iter()
                    .map(|it| {
                        let k = it[0].as_str().unwrap_or("e").chars().next().unwrap_or('e');
                        let n = it.get(1).and_then(|n| n.as_u64()).unwrap_or(0);
                        (k, n)
                    })
                    .collect()
            })
            .unwrap_or_default();
        Script {
            items,
            tail: v.get("tail").and_then(|t| t.as_str()).unwrap_or("honest").to_string(),
            chunk: v.get("chunk").and_then(|c| c.as_u64()).unwrap_or(1 << 20).max(1),
            hint: v.get("hint").and_then(|h| h.as_bool()).unwrap_or(false),
        }
    }
}

/// Shared log of environment-side observations (get_range calls, stream items).
#[derive(Default)]
pub struct EnvLog {
    pub events: Vec<Value>,
    pub calls: u64,
    pub stream_polls: u64,
    pub stalled: bool,
    /// What each stream would hand out if it were polled now: call -> (kind, n).
    pub nexts: std::collections::BTreeMap<u64, (String, u64)>,
}

impl EnvLog {
    pub fn nexts_json(&self) -> Value {
        Value::Array(self.nexts.iter().map(|(c, (k, n))| json!({"call": c, "k": k, "n": n})).collect())
    }
}

pub struct ScriptedEntity<D: ChunkData = Bytes> {
    pub _d: std::marker::PhantomData<fn() -> D>,
    pub len: u64,
    pub etag: Option<HeaderValue>,
    /// volatile entity: what `etag()` returns from its second call on (the resource was replaced
    /// between two reads inside one `serve`)
    pub etag2: Option<HeaderValue>,
    pub etag_calls: std::sync::atomic::AtomicUsize,
    pub mtime: Option<SystemTime>,
    pub hdrs: Vec<(HeaderName, HeaderValue)>,
    pub scripts: Vec<Script>,
    pub dscript: Script,
    pub log: Arc<Mutex<EnvLog>>,
}

impl<D: ChunkData> ScriptedEntity<D> {
    pub fn from_case(ent: &Value, scripts: Option<&Value>, dscript: Option<&Value>) -> ScriptedEntity<D> {
        let len = crate::common::from_limbs(&ent["len"]).expect("ent.len limbs");
        let etag = match ent["etag"]["k"].as_str() {
            Some("tag") => Some(
                HeaderValue::from_bytes(ent["etag"]["s"].as_str().unwrap().as_bytes())
                    .expect("etag header value"),
            ),
            _ => None,
        };
        let etag2 = match ent["etag2"]["k"].as_str() {
            Some("tag") => Some(
                HeaderValue::from_bytes(ent["etag2"]["s"].as_str().unwrap().as_bytes())
                    .expect("etag2 header value"),
            ),
            _ => None,
        };
        let mtime = match ent["mt"]["k"].as_str() {
            Some("t") => Some(crate::common::systime(
                ent["mt"].get("sr").and_then(|v| v.as_i64()).unwrap_or_else(|| ent["mt"]["s"].as_i64().unwrap()),
                ent["mt"]["ns"].as_u64().unwrap() as u32,
            )),
            _ => None,
        };
        let hdrs = ent["hdrs"]
            .as_array()
            .map(|a| {
                a.iter()
                    .map(|p| {
                        (
                            HeaderName::from_bytes(p[0].as_str().unwrap().as_bytes()).unwrap(),
                            HeaderValue::from_bytes(&crate::common::value_bytes(&p[1])).unwrap(),
                        )
                    })
                    .collect()
            })
            .unwrap_or_default();
        ScriptedEntity {
            _d: std::marker::PhantomData,
            len,
            etag,
            etag2,
            etag_calls: std::sync::atomic::AtomicUsize::new(0),
            mtime,
            hdrs,
            scripts: scripts
                .and_then(|s| s.as_array())
                .map(|a| a.iter().map(Script::from_json).collect())
                .unwrap_or_default(),
            dscript: dscript.map(Script::from_json).unwrap_or_else(Script::honest),
            log: Arc::new(Mutex::new(EnvLog::default())),
        }
    }
}

struct ScriptedStream<D: ChunkData> {
    _d: std::marker::PhantomData<fn() -> D>,
    call: u64,
    start: u64,
    pos: u64,
    end: u64,
    script: Script,
    next_item: usize,
    finished: bool,
    extra_done: bool,
    log: Arc<Mutex<EnvLog>>,
}

/// Ranges longer than this are never streamed to the end by an honest tail; the stream stalls
/// (returns Pending without waking) instead and the harness stops polling.
const MAX_HONEST: u64 = 1 << 24;

impl<D: ChunkData> ScriptedStream<D> {
    /// The next item (kind, n, taken from the item list?, is it the one extra byte?) -- pure.
    fn decide(&self) -> (char, u64, bool, bool) {
        if self.next_item < self.script.items.len() {
            let it = self.script.items[self.next_item];
            return (it.0, it.1, true, false);
        }
        let owed = self.end.saturating_sub(self.pos);
        match self.script.tail.as_str() {
            "honest" | "extra" => {
                if owed > 0 {
                    if self.end - self.pos > MAX_HONEST {
                        // a range too long to stream to its end: hand out a few real chunks, then
                        // stall (Pending without wake-up); the harness stops polling there
                        if self.pos - self.start < 3 * self.script.chunk.min(1 << 16) {
                            ('y', self.script.chunk.min(1 << 16), false, false)
                        } else {
                            ('s', 0, false, false)
                        }
                    } else {
                        // at most ~6 chunks per stream whatever the configured chunk size
                        let total = self.end - self.start;
                        ('y', owed.min(self.script.chunk.max(total / 6 + (total % 6 != 0) as u64)), false, false)
                    }
                } else if self.script.tail == "extra" && !self.extra_done {
                    ('y', 1, false, true)
                } else {
                    ('e', 0, false, false)
                }
            }
            // "failfail": the stream keeps failing on every further poll (like a file stream that
            // retries its read), instead of staying finished after its first error
            "fail" | "failfail" => ('f', 0, false, false),
            "stall" => ('s', 0, false, false),
            _ => ('e', 0, false, false),
        }
    }

    fn kind_name(k: char) -> &'static str {
        match k {
            'y' | 'Y' => "yield",
            'p' => "pending",
            's' => "stall",
            'f' => "fail",
            _ => "end",
        }
    }

    fn publish_next(&self, l: &mut EnvLog) {
        let nx = if self.finished {
            ("done".to_string(), 0)
        } else {
            let (k, n, _, _) = self.decide();
            (Self::kind_name(k).to_string(), n.min(1 << 30))
        };
        l.nexts.insert(self.call, nx);
    }
}

impl<D: ChunkData> Stream for ScriptedStream<D> {
    type Item = Result<D, BoxError>;

    fn size_hint(&self) -> (usize, Option<usize>) {
        if !self.script.hint {
            return (0, None);
        }
        if self.finished {
            return (0, Some(0));
        }
        // items still to come: explicit yields / the failure item, then the tail
        let explicit = self.script.items[self.next_item.min(self.script.items.len())..]
            .iter()
            .filter(|(k, _)| *k == 'y' || *k == 'f')
            .count();
        let after_items_pos = self.script.items[self.next_item.min(self.script.items.len())..]
            .iter()
            .filter(|(k, _)| *k == 'y')
            .fold(self.pos, |p, (_, n)| p.saturating_add(*n));
        let owed = self.end.saturating_sub(after_items_pos);
        match self.script.tail.as_str() {
            "honest" | "extra" => {
                let total = self.end - self.start;
                let c = self.script.chunk.max(total / 6 + (total % 6 != 0) as u64).max(1);
                let tail_items = if owed > MAX_HONEST { return (explicit, None); } else { ((owed + c - 1) / c) as usize };
                let extra = (self.script.tail == "extra" && !self.extra_done) as usize;
                (explicit + tail_items + extra, Some(explicit + tail_items + extra))
            }
            "fail" => (explicit + 1, Some(explicit + 1)),
            "failfail" => (explicit + 1, None),
            "stall" => (explicit, None),
            _ => (explicit, Some(explicit)),
        }
    }

    fn poll_next(mut self: Pin<&mut Self>, cx: &mut Context<'_>) -> Poll<Option<Self::Item>> {
        let this = &mut *self;
        let call = this.call;
        let mut l = this.log.lock().unwrap();
        l.stream_polls += 1;
        let mut ev = |l: &mut EnvLog, k: &str, n: u64| {
            l.events.push(json!({"x": "item", "call": call, "k": k, "n": n}));
        };
        if this.finished {
            ev(&mut l, "done", 0);
            return Poll::Ready(None);
        }
        let (k, n, from_items, extra_now) = this.decide();
        if from_items {
            this.next_item += 1;
        }
        if extra_now {
            this.extra_done = true;
        }
        match k {
            'y' => {
                let n = n.min(MAX_HONEST);
                let d = content(this.pos, n as usize);
                this.pos = this.pos.wrapping_add(n);
                ev(&mut l, "yield", n);
                this.publish_next(&mut l);
                Poll::Ready(Some(Ok(D::from_content(d))))
            }
            'Y' => {
                // virtual chunk: claims n bytes (possibly > 2^63); logged capped at 2^30 (TLC integers)
                this.pos = this.pos.wrapping_add(n);
                ev(&mut l, "yield", n.min(1 << 30));
                this.publish_next(&mut l);
                Poll::Ready(Some(Ok(D::from_virtual(n))))
            }
            'p' => {
                ev(&mut l, "pending", 0);
                this.publish_next(&mut l);
                cx.waker().wake_by_ref();
                Poll::Pending
            }
            's' => {
                ev(&mut l, "stall", 0);
                l.stalled = true;
                Poll::Pending
            }
            'f' => {
                this.finished = this.script.tail != "failfail" || from_items;
                ev(&mut l, "fail", 0);
                this.publish_next(&mut l);
                Poll::Ready(Some(Err("scripted entity failure".into())))
            }
            _ => {
                this.finished = true;
                ev(&mut l, "end", 0);
                this.publish_next(&mut l);
                Poll::Ready(None)
            }
        }
    }
}

impl<D: ChunkData> http_serve::Entity for ScriptedEntity<D> {
    type Error = BoxError;
    type Data = D;

    fn len(&self) -> u64 {
        self.len
    }

    fn get_range(
        &self,
        range: Range<u64>,
    ) -> Pin<Box<dyn Stream<Item = Result<D, BoxError>> + Send + Sync>> {
        let mut l = self.log.lock().unwrap();
        l.calls += 1;
        let call = l.calls;
        l.events.push(json!({"x": "getrange", "call": call, "a": limbs(range.start), "b": limbs(range.end)}));
        let script = self
            .scripts
            .get((call - 1) as usize)
            .cloned()
            .unwrap_or_else(|| self.dscript.clone());
        let st = ScriptedStream::<D> {
            _d: std::marker::PhantomData,
            call,
            start: range.start,
            pos: range.start,
            end: range.end,
            script,
            next_item: 0,
            finished: false,
            extra_done: false,
            log: self.log.clone(),
        };
        st.publish_next(&mut l);
        drop(l);
        Box::pin(st)
    }

    fn add_headers(&self, h: &mut HeaderMap) {
        for (k, v) in &self.hdrs {
            h.append(k.clone(), v.clone());
        }
    }

    fn etag(&self) -> Option<HeaderValue> {
        let n = self.etag_calls.fetch_add(1, std::sync::atomic::Ordering::SeqCst);
        if n > 0 {
            if let Some(e2) = &self.etag2 {
                return Some(e2.clone());
            }
        }
        self.etag.clone()
    }

    fn last_modified(&self) -> Option<SystemTime> {
        self.mtime
    }
}
