//! Engine 1: `http_serve::serve` + the bodies it returns, driven case by case.
//!
//! Events per case: reset, req, then per run (main / twin / echo): head, poll*, body.

use crate::common::*;
use crate::entity::{BoxError, ChunkData, ScriptedEntity, SegData};
use crate::lex;
use bytes::{Buf, Bytes};
use http::header::{HeaderName, HeaderValue};
use http::{Method, Request};
use http_body::Body as _;
use serde_json::{json, Value};
use std::pin::Pin;
use std::sync::atomic::{AtomicBool, Ordering};
use std::sync::Arc;
use std::task::{Context, Poll, Wake, Waker};
use std::time::SystemTime;

pub struct FlagWaker(pub AtomicBool);
impl Wake for FlagWaker {
    fn wake(self: Arc<Self>) {
        self.0.store(true, Ordering::SeqCst);
    }
    fn wake_by_ref(self: &Arc<Self>) {
        self.0.store(true, Ordering::SeqCst);
    }
}

fn secs_now() -> u64 {
    SystemTime::now()
        .duration_since(SystemTime::UNIX_EPOCH)
        .unwrap()
        .as_secs()
}

fn num_field(v: &[u8]) -> Value {
    // canonical decimal u64 -> limbs, else raw
    let ok = !v.is_empty()
        && v.len() <= 20
        && v.iter().all(|c| c.is_ascii_digit())
        && !(v.len() > 1 && v[0] == b'0');
    if ok {
        if let Ok(n) = std::str::from_utf8(v).unwrap().parse::<u64>() {
            return json!({"k": "num", "v": limbs(n)});
        }
    }
    json!({"k": "raw", "v": text_or_hex(v)})
}

fn date_field(v: &[u8]) -> Value {
    if let Ok(s) = std::str::from_utf8(v) {
        if let Ok(t) = httpdate::parse_http_date(s) {
            if httpdate::fmt_http_date(t) == s {
                if let Ok(d) = t.duration_since(SystemTime::UNIX_EPOCH) {
                    return json!({"k": "secs", "v": d.as_secs()});
                }
            }
        }
    }
    json!({"k": "raw", "v": text_or_hex(v)})
}

fn content_range_field(v: &[u8]) -> Value {
    let raw = || json!({"k": "raw", "v": text_or_hex(v)});
    let Some(rest) = v.strip_prefix(b"bytes ") else {
        return raw();
    };
    let Some(slash) = rest.iter().position(|&c| c == b'/') else {
        return raw();
    };
    let (lhs, l) = (&rest[..slash], &rest[slash + 1..]);
    let l = num_field(l);
    if l["k"] != "num" {
        return raw();
    }
    if lhs == b"*" {
        return json!({"k": "unsat", "l": l["v"]});
    }
    let Some(dash) = lhs.iter().position(|&c| c == b'-') else {
        return raw();
    };
    let a = num_field(&lhs[..dash]);
    let b = num_field(&lhs[dash + 1..]);
    if a["k"] != "num" || b["k"] != "num" {
        return raw();
    }
    json!({"k": "range", "a": a["v"], "b": b["v"], "l": l["v"]})
}

fn content_type_field(v: &[u8]) -> (Value, Option<Vec<u8>>) {
    // media type and parameter name are case-insensitive; the boundary may be any RFC 2046 token
    // (optionally quoted) -- the lexer uses whatever delimiter the header announces
    let lower: Vec<u8> = v.iter().map(|c| c.to_ascii_lowercase()).collect();
    let pfx = b"multipart/byteranges";
    if lower.starts_with(pfx) {
        if let Some(i) = lower.windows(9).position(|w| w == b"boundary=") {
            let mut b = v[i + 9..].to_vec();
            if b.len() >= 2 && b[0] == b'"' && b[b.len() - 1] == b'"' {
                b = b[1..b.len() - 1].to_vec();
            }
            if !b.is_empty() && b.len() <= 70 && b.iter().all(|c| c.is_ascii_alphanumeric() || b"'()+_,-./:=?".contains(c)) {
                return (
                    json!({"k": "multipart", "boundary": String::from_utf8_lossy(&b), "blen": b.len()}),
                    Some(b),
                );
            }
        }
    }
    (json!({"k": "other", "v": text_or_hex(v)}), None)
}

/// Projects a response head field by field. `ent_hdrs` are the (name, value) pairs the entity
/// supplies; `eh` lists (1-based) which of them occur in the head.
pub fn project_head(
    status: u16,
    headers: &http::HeaderMap,
    ent_hdrs: &[(HeaderName, HeaderValue)],
) -> (Value, Option<Vec<u8>>) {
    let get1 = |n: &str| -> Option<&[u8]> { headers.get(n).map(|v| v.as_bytes()) };
    let count = |n: &str| headers.get_all(n).iter().count();
    let mut boundary = None;
    let ct = match get1("content-type") {
        None => none(),
        Some(v) => {
            let (f, b) = content_type_field(v);
            boundary = b;
            f
        }
    };
    let sval = |n: &str| match get1(n) {
        None => none(),
        Some(v) => json!({"k": "val", "v": text_or_hex(v), "lc": String::from_utf8_lossy(v).to_ascii_lowercase()}),
    };
    let allow = match get1("allow") {
        None => none(),
        Some(v) => {
            let toks: Vec<String> = String::from_utf8_lossy(v)
                .split(',')
                .map(|t| t.trim().to_ascii_lowercase())
                .collect();
            json!({"k": "val", "toks": toks})
        }
    };
    let mut eh = Vec::new();
    for (i, (k, v)) in ent_hdrs.iter().enumerate() {
        if headers.get_all(k).iter().any(|x| x == v) {
            eh.push(i + 1);
        }
    }
    // All header lines except the clock-derived ones, sorted: for HEAD/GET comparison.
    let mut hs: Vec<String> = headers
        .iter()
        .filter(|(k, _)| *k != "date" && *k != "last-modified")
        .map(|(k, v)| format!("{}: {}", k.as_str(), hex_if_needed(v.as_bytes())))
        .collect();
    hs.sort();
    let mut names: Vec<String> = headers.keys().map(|k| k.as_str().to_string()).collect();
    names.sort();
    let dups: Vec<String> = names.iter().filter(|n| count(n) > 1).cloned().collect();
    (
        json!({
            "status": status,
            "cl": get1("content-length").map(num_field).unwrap_or_else(none),
            "cr": get1("content-range").map(content_range_field).unwrap_or_else(none),
            "ct": ct,
            "ar": sval("accept-ranges"),
            "etag": sval("etag"),
            "date": get1("date").map(date_field).unwrap_or_else(none),
            "lm": get1("last-modified").map(date_field).unwrap_or_else(none),
            "allow": allow,
            "vary": sval("vary"),
            "ce": sval("content-encoding"),
            "eh": eh,
            "hs": hs,
            "names": names,
            "dups": dups,
        }),
        boundary,
    )
}

fn hex_if_needed(b: &[u8]) -> String {
    if b.iter().all(|&c| (0x20..0x7f).contains(&c)) {
        String::from_utf8_lossy(b).into_owned()
    } else {
        format!("hex:{}", hex(b))
    }
}

pub fn hint_fields(h: &http_body::SizeHint) -> (Value, Value) {
    (
        limbs(h.lower()),
        match h.upper() {
            Some(u) => json!({"k": "some", "v": limbs(u)}),
            None => none(),
        },
    )
}

fn err_kind(e: &BoxError) -> &'static str {
    let s = e.to_string();
    if s.starts_with("stream ended with") {
        "short"
    } else if s.starts_with("stream returned (at least)") {
        "long"
    } else if s == "scripted entity failure" {
        "entity"
    } else {
        "other"
    }
}

struct RunSpec<'a> {
    run: &'a str,
    method: Method,
    hdrs: Vec<(HeaderName, HeaderValue)>,
    echo: Value,
}

/// Executes one request against a fresh scripted entity and emits head / poll* / body events.
/// Returns the response headers (for echo construction).
/// The ETag header of the response to the case's main request, from an unlogged run.
fn probe_advertised_etag(case: &Value, method: &Method, hdrs: &[(HeaderName, HeaderValue)]) -> Option<Vec<u8>> {
    let ent = ScriptedEntity::<Bytes>::from_case(&case["ent"], case.get("scripts"), case.get("dscript"));
    let mut req = Request::builder().method(method.clone()).uri("/");
    for (k, v) in hdrs {
        req = req.header(k.clone(), v.clone());
    }
    let req = req.body(()).ok()?;
    let r = std::panic::catch_unwind(std::panic::AssertUnwindSafe(|| {
        let resp: http::Response<http_serve::Body<Bytes, BoxError>> = http_serve::serve(ent, &req);
        resp.headers().get(http::header::ETAG).map(|v| v.as_bytes().to_vec())
    }));
    r.unwrap_or(None)
}

fn run_one(out: &mut Out, case: &Value, rs: &RunSpec) -> Option<http::HeaderMap> {
    // `seg`: the entity hands out multi-segment `Buf`s instead of contiguous `Bytes`
    if case.get("file").and_then(|s| s.as_bool()).unwrap_or(false) {
        run_one_file(out, case, rs)
    } else if case.get("seg").and_then(|s| s.as_bool()).unwrap_or(false) {
        run_one_d::<SegData>(out, case, rs)
    } else {
        run_one_d::<Bytes>(out, case, rs)
    }
}

fn run_one_d<D: ChunkData>(out: &mut Out, case: &Value, rs: &RunSpec) -> Option<http::HeaderMap> {
    let ent = ScriptedEntity::<D>::from_case(&case["ent"], case.get("scripts"), case.get("dscript"));
    let log = ent.log.clone();
    let ent_hdrs = ent.hdrs.clone();
    run_entity(out, case, rs, ent, log, ent_hdrs)
}

/// The entity is a real `ChunkedReadFile` over a temporary file with position-coded content
/// (ties the range / multipart properties to 64 KiB multi-chunk file streams).
fn run_one_file(out: &mut Out, case: &Value, rs: &RunSpec) -> Option<http::HeaderMap> {
    let p = file_path(case);
    let f = std::fs::File::open(&p).expect("open temp file");
    let mut hm = http::HeaderMap::new();
    let mut ent_hdrs = Vec::new();
    if let Some(a) = case["ent"]["hdrs"].as_array() {
        for h in a {
            let k = HeaderName::from_bytes(h[0].as_str().unwrap().as_bytes()).unwrap();
            let v = HeaderValue::from_bytes(&value_bytes(&h[1])).unwrap();
            hm.append(k.clone(), v.clone());
            ent_hdrs.push((k, v));
        }
    }
    let ent: http_serve::ChunkedReadFile<Bytes, BoxError> = http_serve::ChunkedReadFile::new(f, hm).expect("ChunkedReadFile");
    let log = Arc::new(std::sync::Mutex::new(crate::entity::EnvLog::default()));
    FILE_RT.with(|rt| rt.block_on(async { run_entity(out, case, rs, ent, log, ent_hdrs) }))
}

fn file_path(case: &Value) -> std::path::PathBuf {
    let dir = std::path::PathBuf::from(std::env::var("VH_TMP").unwrap_or_else(|_| "/verif/work/files".to_string()));
    let _ = std::fs::create_dir_all(&dir);
    dir.join(format!("s{}_{}", std::process::id(), case["id"].as_u64().unwrap_or(0)))
}

/// Creates the case's file (position-coded content, explicit mtime) and returns the entity's own
/// validators as the abstract `ent` record of the req event.
fn make_case_file(case: &Value) -> Value {
    let len = from_limbs(&case["ent"]["len"]).unwrap_or(0).min(1 << 22);
    let p = file_path(case);
    std::fs::write(&p, crate::entity::content(0, len as usize)).expect("write temp file");
    let (ms, mns) = (case["ent"]["mt"]["s"].as_u64().unwrap_or(1_000_000_000), case["ent"]["mt"]["ns"].as_u64().unwrap_or(0));
    let f = std::fs::OpenOptions::new().read(true).write(true).open(&p).expect("open rw");
    f.set_modified(SystemTime::UNIX_EPOCH + std::time::Duration::new(ms, mns as u32)).expect("set mtime");
    let crf: http_serve::ChunkedReadFile<Bytes, BoxError> =
        http_serve::ChunkedReadFile::new(std::fs::File::open(&p).unwrap(), http::HeaderMap::new()).expect("ChunkedReadFile");
    let etag = http_serve::Entity::etag(&crf).map(|v| String::from_utf8_lossy(v.as_bytes()).to_string()).unwrap_or_default();
    let op = etag.trim_matches('"').to_string();
    json!({"etag": {"k": "tag", "w": false, "op": op, "s": etag}, "mt": {"k": "t", "s": ms, "ns": mns, "fut": false}})
}

thread_local! {
    static FILE_RT: tokio::runtime::Runtime =
        tokio::runtime::Builder::new_multi_thread().worker_threads(1).build().expect("runtime");
}

fn run_entity<En>(
    out: &mut Out,
    case: &Value,
    rs: &RunSpec,
    ent: En,
    log: Arc<std::sync::Mutex<crate::entity::EnvLog>>,
    ent_hdrs: Vec<(HeaderName, HeaderValue)>,
) -> Option<http::HeaderMap>
where
    En: http_serve::Entity<Error = BoxError>,
{
    let mut req = Request::builder().method(rs.method.clone()).uri("/");
    for (k, v) in &rs.hdrs {
        req = req.header(k.clone(), v.clone());
    }
    let req = req.body(()).expect("request");
    let extra = case.get("extra").and_then(|e| e.as_u64()).unwrap_or(4);
    // honest scripted streams need < 100 polls; a body still going after this budget is looping
    let max_polls = case.get("max_polls").and_then(|e| e.as_u64()).unwrap_or(400);

    let t0 = secs_now();
    let resp = catch(|| http_serve::serve(ent, &req));
    let t1 = secs_now();
    let drain_env = |log: &Arc<std::sync::Mutex<crate::entity::EnvLog>>| -> Vec<Value> {
        std::mem::take(&mut log.lock().unwrap().events)
    };
    let resp = match resp {
        Err(msg) => {
            out.emit(json!({"ev": "head", "run": rs.run, "method": rs.method.as_str(), "panic": true,
                            "msg": msg, "echo": rs.echo, "env": drain_env(&log)}));
            return None;
        }
        Ok(r) => r,
    };
    let (parts, body) = resp.into_parts();
    let (h, boundary) = project_head(parts.status.as_u16(), &parts.headers, &ent_hdrs);
    out.emit(json!({"ev": "head", "run": rs.run, "method": rs.method.as_str(), "panic": false,
                    "t0": t0, "t1": t1, "h": h, "echo": rs.echo, "env": drain_env(&log)}));

    // Drain.
    let mode = match (parts.status.as_u16(), &boundary) {
        (200 | 206, Some(_)) => lex::Mode::Multipart,
        (200 | 206, None) => lex::Mode::Data,
        _ => lex::Mode::Raw,
    };
    let flag = Arc::new(FlagWaker(AtomicBool::new(false)));
    let waker = Waker::from(flag.clone());
    let mut cx = Context::from_waker(&waker);
    let mut body = Box::pin(body);
    let mut all: Vec<u8> = Vec::new();
    let mut polls = 0u64;
    let mut after_terminal = 0u64;
    let mut terminal = false;
    let mut stopped = "drained";
    loop {
        if terminal {
            if after_terminal >= extra {
                break;
            }
            after_terminal += 1;
        }
        if polls >= max_polls || log.lock().unwrap().calls > std::cmp::max(64, max_polls / 4) {
            stopped = "max_polls";
            break;
        }
        // file-backed entity: the file is truncated (never extended) just before poll number `k`
        let mut ftrunc: i64 = -1;
        if rs.run == "main" {
            if let Some(t) = case.get("ftrunc").and_then(|t| t.as_array()) {
                if t[0].as_u64() == Some(polls) {
                    if let Ok(f) = std::fs::OpenOptions::new().write(true).open(file_path(case)) {
                        let cur = f.metadata().map(|m| m.len()).unwrap_or(0);
                        let nl = t[1].as_u64().unwrap_or(0).min(cur);
                        if f.set_len(nl).is_ok() {
                            ftrunc = nl as i64;
                        }
                    }
                }
            }
        }
        polls += 1;
        let pre = catch(|| (body.size_hint(), body.is_end_stream()));
        let (hint, eos) = match pre {
            Ok(p) => p,
            Err(msg) => {
                out.emit(json!({"ev": "poll", "res": "panic", "where": "hint", "msg": msg, "n": 0, "nexts": [],
                                "lo": limbs(0), "up": none(), "eos": false, "errk": "", "env": drain_env(&log), "ftrunc": ftrunc}));
                stopped = "panic";
                break;
            }
        };
        let (lo, up) = hint_fields(&hint);
        flag.0.store(false, Ordering::SeqCst);
        let r = catch(|| Pin::as_mut(&mut body).poll_frame(&mut cx));
        let env = drain_env(&log);
        let nexts = log.lock().unwrap().nexts_json();
        let mut ev = json!({"ev": "poll", "lo": lo, "up": up, "eos": eos, "n": 0, "errk": "", "env": env, "nexts": nexts, "ftrunc": ftrunc});
        match r {
            Err(msg) => {
                ev["res"] = json!("panic");
                ev["msg"] = json!(msg);
                out.emit(ev);
                stopped = "panic";
                break;
            }
            Ok(Poll::Pending) => {
                ev["res"] = json!("pending");
                let woken = flag.0.load(Ordering::SeqCst);
                ev["woken"] = json!(woken);
                out.emit(ev);
                if !woken {
                    stopped = if log.lock().unwrap().stalled { "stalled" } else { "hang" };
                    break;
                }
            }
            Ok(Poll::Ready(None)) => {
                ev["res"] = json!("end");
                out.emit(ev);
                terminal = true;
            }
            Ok(Poll::Ready(Some(Err(e)))) => {
                ev["res"] = json!("err");
                ev["errk"] = json!(err_kind(&e));
                out.emit(ev);
                terminal = true;
            }
            Ok(Poll::Ready(Some(Ok(frame)))) => match frame.into_data() {
                Ok(mut d) => {
                    let mut n = d.remaining();
                    if n > 1 << 26 {
                        // a frame that claims more than could be held (virtual Buf passed through):
                        // its length is recorded (capped for TLC's integers), its bytes are not copied
                        n = n.min(1 << 30);
                    } else {
                        let mut v = vec![0u8; n];
                        d.copy_to_slice(&mut v);
                        all.extend_from_slice(&v);
                    }
                    ev["res"] = json!("data");
                    ev["n"] = json!(n);
                    out.emit(ev);
                }
                Err(_) => {
                    ev["res"] = json!("trailers");
                    out.emit(ev);
                }
            },
        }
    }
    let toks = lex::lex(&all, mode, boundary.as_deref().unwrap_or(b""));
    let l = log.lock().unwrap();
    out.emit(json!({"ev": "body", "run": rs.run, "tokens": toks, "total": all.len(), "polls": polls,
                    "stopped": stopped, "calls": l.calls, "spolls": l.stream_polls}));
    Some(parts.headers)
}

fn case_headers(case: &Value) -> Vec<(HeaderName, HeaderValue)> {
    case["hdrs"]
        .as_array()
        .map(|a| {
            a.iter()
                .filter_map(|p| {
                    let n = HeaderName::from_bytes(p[0].as_str()?.as_bytes()).ok()?;
                    let v = HeaderValue::from_bytes(&value_bytes(&p[1])).ok()?;
                    Some((n, v))
                })
                .collect()
        })
        .unwrap_or_default()
}

/// `Body::from` / `Body::empty` conversions (C12): poll the body by hand like any other.
fn run_conv(out: &mut Out, case: &Value) {
    let n = case["len"].as_u64().unwrap_or(0) as usize;
    let data = crate::entity::content(0, n);
    let kind = case["conv"].as_str().unwrap_or("vec");
    type B = http_serve::Body<Bytes, BoxError>;
    let body: B = match kind {
        "empty" => B::empty(),
        "vec" => B::from(data.clone()),
        "string" => B::from(String::from_utf8(data.iter().map(|b| b % 128).collect()).unwrap()),
        "slice" => B::from(&*Box::leak(data.clone().into_boxed_slice())),
        _ => B::from(&*Box::leak(String::from_utf8(data.iter().map(|b| b % 128).collect()).unwrap().into_boxed_str())),
    };
    out.emit(json!({"ev": "conv", "kind": kind, "len": if kind == "empty" { 0 } else { n }}));
    let flag = Arc::new(FlagWaker(AtomicBool::new(false)));
    let waker = Waker::from(flag.clone());
    let mut cx = Context::from_waker(&waker);
    let mut body = Box::pin(body);
    let mut after = 0;
    let mut total = 0usize;
    let mut terminal = false;
    for _ in 0..12 {
        if terminal {
            if after >= 3 {
                break;
            }
            after += 1;
        }
        let Ok((hint, eos)) = catch(|| (body.size_hint(), body.is_end_stream())) else {
            out.emit(json!({"ev": "poll", "res": "panic", "n": 0, "lo": limbs(0), "up": none(), "eos": false, "errk": "", "env": [], "nexts": []}));
            break;
        };
        let (lo, up) = hint_fields(&hint);
        let mut ev = json!({"ev": "poll", "lo": lo, "up": up, "eos": eos, "n": 0, "errk": "", "env": [], "nexts": []});
        match catch(|| Pin::as_mut(&mut body).poll_frame(&mut cx)) {
            Err(_) => { ev["res"] = json!("panic"); out.emit(ev); break; }
            Ok(Poll::Pending) => { ev["res"] = json!("pending"); out.emit(ev); break; }
            Ok(Poll::Ready(None)) => { ev["res"] = json!("end"); terminal = true; out.emit(ev); }
            Ok(Poll::Ready(Some(Err(_)))) => { ev["res"] = json!("err"); terminal = true; out.emit(ev); }
            Ok(Poll::Ready(Some(Ok(f)))) => {
                if let Ok(d) = f.into_data() {
                    total += d.remaining();
                    ev["res"] = json!("data");
                    ev["n"] = json!(d.remaining());
                }
                out.emit(ev);
            }
        }
    }
    out.emit(json!({"ev": "convend", "total": total}));
}

/// Runs one case in a process of its own (an input that may take the whole process down: stack
/// exhaustion, abort) and copies the events it wrote.  If the process died before the case was
/// finished, that is recorded as a panic of the call that was in progress.
fn run_isolated(out: &mut Out, case: &Value) {
    let dir = std::path::PathBuf::from(std::env::var("VH_TMP").unwrap_or_else(|_| "/verif/work/files".to_string()));
    let _ = std::fs::create_dir_all(&dir);
    let base = format!("iso{}_{}", std::process::id(), case["id"].as_u64().unwrap_or(0));
    let cpath = dir.join(format!("{base}.cases.ndjson"));
    let tpath = dir.join(format!("{base}.trace.ndjson"));
    std::fs::write(&cpath, format!("{}\n", case)).expect("write isolated case");
    let st = std::env::current_exe().and_then(|exe| {
        std::process::Command::new(exe)
            .arg("serve").arg(&cpath).arg(&tpath)
            .env("VH_CHILD", "1")
            .stdout(std::process::Stdio::null())
            .stderr(std::process::Stdio::null())
            .status()
    });
    let (mut saw_reset, mut saw_req, mut saw_head, mut saw_body) = (false, false, false, false);
    if let Ok(text) = std::fs::read_to_string(&tpath) {
        for line in text.lines() {
            if let Ok(v) = serde_json::from_str::<Value>(line) {
                match v["ev"].as_str().unwrap_or("") {
                    "reset" => saw_reset = true,
                    "req" => saw_req = true,
                    "head" if v["run"] == "main" => saw_head = true,
                    "body" if v["run"] == "main" => saw_body = true,
                    _ => {}
                }
                out.emit(v);
            }
        }
    }
    let ok = matches!(&st, Ok(s) if s.success());
    if !ok && !saw_body {
        let msg = format!("the process running this case died ({})", match &st { Ok(s) => s.to_string(), Err(e) => e.to_string() });
        if !saw_reset {
            out.emit(json!({"ev": "reset", "case": case["id"]}));
        }
        if !saw_head {
            let _ = saw_req;
            out.emit(json!({"ev": "head", "run": "main", "method": case["method"], "panic": true, "msg": msg, "echo": [], "env": []}));
        } else {
            out.emit(json!({"ev": "poll", "res": "panic", "where": "abort", "msg": msg, "n": 0, "nexts": [],
                            "lo": limbs(0), "up": none(), "eos": false, "errk": "", "env": [], "ftrunc": -1}));
        }
    }
    let _ = std::fs::remove_file(&cpath);
    let _ = std::fs::remove_file(&tpath);
}

pub fn run(cases_path: &str, out_path: &str) {
    silence_panics();
    let cases = read_cases(cases_path);
    let mut out = Out::create(out_path);
    for case in &cases {
        // clock placement: some cases are run right before / right after a second boundary
        if let Some(ps) = case.get("pre_sleep") {
            if let Some(f) = ps.get("to_frac").and_then(|f| f.as_f64()) {
                let now = SystemTime::now().duration_since(SystemTime::UNIX_EPOCH).unwrap();
                let frac = now.subsec_nanos() as f64 / 1e9;
                let wait = if frac <= f { f - frac } else { 1.0 - frac + f };
                std::thread::sleep(std::time::Duration::from_secs_f64(wait));
            }
            if let Some(ms) = ps.get("ms").and_then(|m| m.as_u64()) {
                std::thread::sleep(std::time::Duration::from_millis(ms));
            }
        }
        if case.get("isolate").and_then(|b| b.as_bool()).unwrap_or(false) && std::env::var("VH_CHILD").is_err() {
            run_isolated(&mut out, case);
            continue;
        }
        out.emit(json!({"ev": "reset", "case": case["id"]}));
        if case.get("conv").is_some() {
            run_conv(&mut out, case);
            continue;
        }
        let method_s = case["method"].as_str().unwrap_or("GET");
        let Ok(method) = Method::from_bytes(method_s.as_bytes()) else {
            out.emit(json!({"ev": "skip", "why": "method not accepted by http crate"}));
            continue;
        };
        let mclass = if method == Method::GET {
            "get"
        } else if method == Method::HEAD {
            "head"
        } else {
            "other"
        };
        let hdrs = case_headers(case);
        let nh = case["ent"]["hdrs"].as_array().map(|a| a.len()).unwrap_or(0);
        let hl: usize = case["ent"]["hdrs"]
            .as_array()
            .map(|a| {
                a.iter()
                    .map(|p| p[0].as_str().unwrap().len() + value_bytes(&p[1]).len() + 4)
                    .sum()
            })
            .unwrap_or(0);
        let etagv = match case["ent"]["etag"]["s"].as_str() {
            Some(s) => text_or_hex(s.as_bytes()),
            None => none(),
        };
        let ehdrs: Vec<Value> = case["ent"]["hdrs"]
            .as_array()
            .map(|a| {
                a.iter()
                    .map(|p| json!([p[0], text_or_hex(&value_bytes(&p[1]))]))
                    .collect()
            })
            .unwrap_or_default();
        let is_file = case.get("file").and_then(|f| f.as_bool()).unwrap_or(false);
        let (ent_etag, ent_mt, etagv) = if is_file {
            let f = make_case_file(case);
            let ev = text_or_hex(f["etag"]["s"].as_str().unwrap_or("").as_bytes());
            (f["etag"].clone(), f["mt"].clone(), ev)
        } else if case["ent"]["etag2"]["k"].as_str() == Some("tag") {
            // Volatile entity (its tag changes between two `etag()` calls inside one `serve`): the
            // response is judged against the version it advertises. A silent probe run of the same
            // request (fresh entity, same call counter) tells which one that is.
            let adv = probe_advertised_etag(case, &method, &hdrs);
            let e2 = &case["ent"]["etag2"];
            if adv.as_deref() == e2["s"].as_str().map(|s| s.as_bytes()) {
                (e2.clone(), case["ent"]["mt"].clone(), text_or_hex(e2["s"].as_str().unwrap().as_bytes()))
            } else {
                (case["ent"]["etag"].clone(), case["ent"]["mt"].clone(), etagv)
            }
        } else {
            (case["ent"]["etag"].clone(), case["ent"]["mt"].clone(), etagv)
        };
        out.emit(json!({"ev": "req", "method": method_s, "mclass": mclass, "file": is_file,
                        "ent": {"len": case["ent"]["len"], "etag": ent_etag, "mt": ent_mt,
                                "nh": nh, "hl": hl, "etagv": etagv, "hdrs": ehdrs},
                        "abs": case["abs"], "cls": case.get("cls").cloned().unwrap_or(json!("")) }));
        let main = RunSpec { run: "main", method: method.clone(), hdrs: hdrs.clone(), echo: json!([]) };
        let main_headers = run_one(&mut out, case, &main);
        if case.get("pair").and_then(|p| p.as_bool()).unwrap_or(false) && mclass != "other" {
            let twin_method = if method == Method::GET { Method::HEAD } else { Method::GET };
            let twin = RunSpec { run: "twin", method: twin_method, hdrs: hdrs.clone(), echo: json!([]) };
            run_one(&mut out, case, &twin);
        }
        if let (Some(echo), Some(mh)) = (case.get("echo").and_then(|e| e.as_array()), main_headers.as_ref()) {
            // Second request of a two-request history: validators copied verbatim from the first
            // response.
            let mut h2: Vec<(HeaderName, HeaderValue)> = Vec::new();
            let mut applied = Vec::new();
            for e in echo {
                let (src, dst) = match e.as_str().unwrap_or("") {
                    "inm" => ("etag", "if-none-match"),
                    "im" => ("etag", "if-match"),
                    "ir" => ("etag", "if-range"),
                    "ims" => ("last-modified", "if-modified-since"),
                    "ius" => ("last-modified", "if-unmodified-since"),
                    _ => continue,
                };
                if let Some(v) = mh.get(src) {
                    h2.push((HeaderName::from_static(dst), v.clone()));
                    applied.push(e.clone());
                    if dst == "if-range" {
                        let r = case.get("erange").and_then(|r| r.as_str()).unwrap_or("bytes=0-0");
                        h2.push((HeaderName::from_static("range"), HeaderValue::from_str(r).unwrap()));
                    }
                }
            }
            let m2 = case.get("emethod").and_then(|m| m.as_str()).unwrap_or("GET");
            let er = RunSpec {
                run: "echo",
                method: Method::from_bytes(m2.as_bytes()).unwrap_or(Method::GET),
                hdrs: h2,
                echo: json!(applied),
            };
            run_one(&mut out, case, &er);
        }
    }
    for case in &cases {
        if case.get("file").and_then(|f| f.as_bool()).unwrap_or(false) {
            let _ = std::fs::remove_file(file_path(case));
        }
    }
    let n = out.events;
    out.finish();
    println!("{{\"cases\": {}, \"events\": {}}}", cases.len(), n);
}

#[allow(dead_code)]
pub fn _unused(_: Bytes) {}
