"""Case generation for the streaming engine (BodyWriter / chunker) and for should_gzip."""
import itertools
import random

ABSENT = {"k": "absent"}

# ---------------------------------------------------------------- Accept-Encoding (C16, C17)

CODINGS = ["gzip", "identity", "*", "br", "deflate", "x-gzip"]
# weight token -> thousandths
WEIGHTS = [(None, 1000), ("0", 0), ("0.", 0), ("0.0", 0), ("0.000", 0), ("0.001", 1), ("0.5", 500),
           ("0.999", 999), ("1", 1000), ("1.", 1000), ("1.000", 1000)]
MORE_WEIGHTS = [("0.05", 50), ("0.25", 250), ("0.9", 900), ("0.01", 10), ("0.100", 100), ("1.0", 1000), ("1.00", 1000)]


# three quarters of the renderings in the usual lower case
STYLES = list(range(4)) * 3 + list(range(4, 16))


def render_ae(elems, style):
    """elems: [(coding, token)]; style % 4: whitespace after ',', around ';', both, none;
    style & 4: coding names in upper / mixed case (content-codings are case-insensitive, RFC 7231 3.1.2.1);
    style & 8: the weight parameter written `Q=` (ABNF literals are case-insensitive, RFC 5234 2.3)"""
    parts = []
    for i, (c, tok) in enumerate(elems):
        if style & 4:
            c = c.upper() if (i + style) % 2 == 0 else c.capitalize()
        if tok is None:
            parts.append(c)
        else:
            semi = " ; " if style % 4 in (2, 3) else ";"
            parts.append("%s%s%s=%s" % (c, semi, "Q" if style & 8 else "q", tok))
    sep = ", " if style % 4 in (1, 3) else ","
    return sep.join(parts)


def ae_abs(elems_q):
    return {"k": "list", "l": [{"c": c, "q": q} for c, q in elems_q]}


def ae_case(elems, style):
    """elems: [(coding, (token, q))]"""
    return {"hdr": render_ae([(c, w[0]) for c, w in elems], style), "abs": ae_abs([(c, w[1]) for c, w in elems])}


def neg_cases(tier, seed):
    rng = random.Random(seed)
    cases = []
    elems = [(c, w) for c in CODINGS for w in WEIGHTS]

    def add(es, style):
        c = ae_case(es, style)
        c["id"] = len(cases) + 1
        cases.append(c)

    cases.append({"id": 1, "hdr": None, "abs": dict(ABSENT)})
    cases.append({"id": 2, "hdr": "", "abs": ae_abs([])})
    for e in elems:                       # every 1-element list, 16 renderings
        for st in range(16):
            add([e], st)
    for a in elems:                       # every 2-element list
        for b in elems:
            add([a, b], rng.choice(STYLES))
    rel = [(c, w) for c in ("gzip", "identity", "*") for w in WEIGHTS]
    n3 = 292000 if tier == "thorough" else 20000
    n4 = 200000 if tier == "thorough" else 10000
    if tier == "thorough":
        for a in elems:
            for b in elems:
                for c in elems:
                    add([a, b, c], rng.choice(STYLES))
    else:
        for _ in range(n3):
            add([rng.choice(elems) for _ in range(3)], rng.choice(STYLES))
    for _ in range(n4):                   # 4-element lists over the relevant codings plus one filler
        es = [rng.choice(rel) for _ in range(3)] + [rng.choice(elems)]
        rng.shuffle(es)
        add(es, rng.choice(STYLES))
    allw = WEIGHTS + MORE_WEIGHTS
    for _ in range(5000 if tier == "quick" else 50000):   # other 1-3 digit weights
        es = [(rng.choice(CODINGS[:3]), rng.choice(allw)) for _ in range(rng.randrange(1, 4))]
        add(es, rng.choice(STYLES))
    # every pair of adjacent three-digit qvalues, both ways round and equal (the comparison is exact in
    # thousandths), with the 1- and 2-digit spellings where they exist
    def qtok(v):
        if v == 1000:
            return rng.choice(["1", "1.0", "1.000"])
        t = "0.%03d" % v
        forms = [t]
        if v % 10 == 0:
            forms.append(t[:-1])
        if v % 100 == 0:
            forms.append(t[:-2])
        return rng.choice(forms)
    for v in range(0, 1000):
        other = rng.choice(["identity", "*"])
        for g, o in ((v, v + 1), (v + 1, v), (v, v)):
            es = [("gzip", (qtok(g), g)), (other, (qtok(o), o))]
            rng.shuffle(es)
            add(es, rng.choice(STYLES))
    # the same values again, each preceded by a call with another value of the same length (and usually
    # the opposite answer): no state may survive from one call to the next
    by_len = {}
    for c in cases:
        if isinstance(c.get("hdr"), str) and c["abs"].get("k") == "list":
            by_len.setdefault(len(c["hdr"]), []).append(c)
    pool = [c for c in cases if isinstance(c.get("hdr"), str) and c["abs"].get("k") == "list"]
    for _ in range(4000):
        c = rng.choice(pool)
        other = rng.choice(by_len[len(c["hdr"])])
        if other["hdr"] != c["hdr"]:
            cases.append({"id": len(cases) + 1, "hdr": c["hdr"], "abs": c["abs"], "prev": other["hdr"]})
    # every string of up to 4 symbols, read by the TLA+ transcription of the grammar (HdrLex.tla)
    import lexgen
    for s_, a in lexgen.cases("ae", 4):
        cases.append({"id": len(cases) + 1, "hdr": s_, "abs": a})
    # very long runs of what the parser skips or repeats, each in a process of its own
    n_ = 250000
    for hdr, a in (("gzip" + "," * n_, ae_abs([("gzip", 1000)])), (" " * n_ + "gzip", ae_abs([("gzip", 1000)])),
                   ("gzip;" + " " * n_ + "q=0", ae_abs([("gzip", 0)])), ("identity;q=0." + "0" * n_, {"k": "garbage"}),
                   (", " * (n_ // 2) + "gzip;q=0.5, *;q=0.4", ae_abs([("gzip", 500), ("*", 400)]))):
        cases.append({"id": len(cases) + 1, "hdr": hdr, "abs": a, "isolate": True})
    # arbitrary bytes: no claim beyond "no panic"
    alphabet = list(range(0x20, 0x7f)) + [0x09] + list(range(0x80, 0x100))
    ng = 100000 if tier == "thorough" else 15000
    toks = [b"gzip", b"identity", b"*", b";", b"q=", b",", b" ", b"0.5", b"1", b"0", b"=", b"q", b";q=1.0000", b";q=2",
            b";q=-1", b";q=0.5555", b";;", b"\t"]
    for _ in range(ng):
        if rng.random() < 0.5:
            b = bytes(rng.choice(alphabet) for _ in range(rng.randrange(0, 30)))
        else:
            b = b"".join(rng.choice(toks) for _ in range(rng.randrange(1, 9)))
        cases.append({"id": len(cases) + 1, "hdr": {"hex": b.hex()}, "abs": {"k": "garbage"}})
    # weights just outside the qvalue grammar, around every coding (no claim beyond "no panic")
    bad_q = ["0.-5", "0.5.", "0.+1", "0. 5", ".5", "1.001", "0.1234", "1.0000", "-0", "+1", "0x1", "1e0", "0.5;", "0..5", "0,5",
             "0.\t5", "2", "00.5", "0.05 ", "", " ", "q", "1.", "0.", "0.0.0", "0.!", "0./", "0.:", "0.a", "\x7f"]
    for bq in bad_q:
        for c in ("gzip", "identity", "*", "br"):
            for pre in ("", "gzip, ", "identity;q=0.5, "):
                cases.append({"id": 0, "hdr": {"hex": (pre + c + ";q=" + bq).encode().hex()}, "abs": {"k": "garbage"}})
    # repeated header lines (only the first is consulted by the code; no claim)
    for _ in range(200):
        cases.append({"id": len(cases) + 1, "hdr": "gzip", "hdr2": "identity;q=0", "abs": {"k": "garbage"}})
    for i, c in enumerate(cases):
        c["id"] = i + 1
    return cases


# ---------------------------------------------------------------- producer programs and schedules

def write_sizes(cap):
    return sorted(set([0, 1, max(cap - 1, 0), cap, cap + 1, 3 * cap]))


def rand_prog(rng, cap, maxops, abort=True, wait=True):
    ops = []
    n = rng.randrange(0, maxops + 1)
    for _ in range(n):
        r = rng.random()
        if r < 0.47:
            ops.append(["write", rng.choice(write_sizes(cap))])
        elif r < 0.55:
            ops.append(["writev", rng.choice(write_sizes(cap))])     # Write::write_vectored
        elif r < 0.8:
            ops.append(["flush", 0])
        elif r < 0.9 and wait:
            ops.append(["wait", 0])
        elif abort:
            ops.append(["abort", 0])
        else:
            ops.append(["flush", 0])
    ops.append(["drop", 1 if rng.random() < 0.25 else 0])     # 1: dropped during panic unwinding
    return ops


def all_progs(cap, maxops, abort=True):
    opset = [["write", n] for n in write_sizes(cap)] + [["flush", 0]] + ([["abort", 0]] if abort else [])
    for m in range(0, maxops + 1):
        for p in itertools.product(opset, repeat=m):
            yield [list(o) for o in p] + [["drop", 0]]


AE_CHOICES = [
    (None, dict(ABSENT)),
    ("gzip", ae_abs([("gzip", 1000)])),
    ("gzip;q=0", ae_abs([("gzip", 0)])),
    ("identity", ae_abs([("identity", 1000)])),
    ("*", ae_abs([("*", 1000)])),
    ("identity;q=0.5, gzip;q=0.5", ae_abs([("identity", 500), ("gzip", 500)])),
    ("gzip;q=0.4, identity;q=0.5", ae_abs([("gzip", 400), ("identity", 500)])),
    ("br, deflate", ae_abs([("br", 1000), ("deflate", 1000)])),
    ("*;q=0, gzip", ae_abs([("*", 0), ("gzip", 1000)])),
    ("", ae_abs([])),
    ("GZIP;q=0, *", ae_abs([("gzip", 0), ("*", 1000)])),
    ("Gzip", ae_abs([("gzip", 1000)])),
    ("gzip;Q=0.5, Identity", ae_abs([("gzip", 500), ("identity", 1000)])),
]


def stream_cases(prop, tier, seed, sched_cases=()):
    rng = random.Random(seed)
    T = tier == "thorough"
    k = 6 if T else 1
    cases = []

    def add(**kw):
        kw.setdefault("extra", 2)
        kw.setdefault("abs", dict(ABSENT))
        cases.append(kw)

    raw_caps = [1, 2, 3, 4, 7, 4096, 65536]
    if prop in ("C08", "C10", "C11", "C12", "C20"):
        abort = prop != "C08"
        cdrop = prop in ("C11", "C20")
        # TLC-derived schedules (complete behaviours of small programs, simulation walks)
        for sc in sched_cases:
            add(**sc)
        # every program of <= 2 (quick) / 3 (thorough) operations x small chunk sizes, two seeded schedules each
        for cap in ([1, 2, 3] if not T else [1, 2, 3, 4]):
            for prog in all_progs(cap, 2 if not T else 3, abort=abort):
                for r in range(2):
                    add(cap=cap, prog=prog, rand_steps=60, rseed=rng.randrange(1 << 30), rand_cdrop=cdrop and r == 1)
        # identity streaming is also what a client that offers gzip gets at level 0, and what a client
        # that refuses gzip gets at any level
        for hdr, a, level in (("gzip", ae_abs([("gzip", 1000)]), 0), ("gzip;q=0", ae_abs([("gzip", 0)]), 6),
                              ("identity", ae_abs([("identity", 1000)]), 9), ("*", ae_abs([("*", 1000)]), 0)):
            for cap in (1, 3, 4096):
                for prog in ([["write", 5], ["flush", 0], ["write", 2 * cap + 1], ["drop", 0]], [["write", 0], ["drop", 0]]):
                    add(cap=cap, prog=prog, ae=hdr, abs=a, level=level, rand_steps=80, rseed=rng.randrange(1 << 30))
        # a backlog: hundreds of chunks queued before the consumer starts, then polled back to back
        for cap, n_, tail in ((1, 300, [["drop", 0]]), (1, 200, [["wait", 0], ["write", 3], ["drop", 0]]), (2, 520, [["flush", 0], ["drop", 0]]),
                              (1, 150, [["wait", 0], ["abort", 0]] if abort else [["wait", 0], ["drop", 0]])):
            add(cap=cap, prog=[["write", cap]] * (n_ // cap) + tail, rand_steps=0, rseed=rng.randrange(1 << 30), extra=1)
        # seeded random programs of up to 6 (quick) / 40 (thorough) operations
        for _ in range(1500 * k):
            cap = rng.choice(raw_caps)
            small = rng.choice([1, 2, 3, 4, 7])
            prog = rand_prog(rng, small if cap > 100 and rng.random() < 0.5 else min(cap, 9), 6 if not T or rng.random() < 0.7 else 40,
                             abort=abort)
            add(cap=cap if rng.random() < 0.3 else small, prog=prog, rand_steps=400, rseed=rng.randrange(1 << 30),
                rand_cdrop=cdrop and rng.random() < 0.4, extra=rng.choice([1, 2, 4]))
    if prop == "C09":
        # free-running stress with a gzip writer: flush must leave nothing private even under contention
        for i in range(40 * k):
            add(cap=rng.choice([1, 4, 16]), ae="gzip", prog=[["write", rng.choice([1, 5, 40])], ["flush", 0]] * rng.choice([6, 15]) + [["drop", 0]],
                stress=150 if not T else 600)
    if prop in ("C10", "C08", "C11", "C12"):
        # free-running stress (no baton): real lock contention, sites without yield points
        for i in range(60 * k):
            cap = rng.choice([1, 2, 3, 4])
            prog = rand_prog(rng, cap, 6, abort=prop != "C08", wait=True)
            if i % 3 == 0:
                # many tiny chunks: long producer critical-section traffic
                prog = [["write", 1], ["flush", 0]] * rng.choice([8, 20]) + [["drop", 0]]
                cap = rng.choice([1, 4])
            add(cap=cap, prog=prog, stress=150 if not T else 600, cdrop=(prop == "C11" and i % 2 == 0))
    if prop in ("C09", "C17", "C11", "C12", "C20"):
        n = {"C09": 700, "C17": 300, "C11": 250, "C12": 200, "C20": 150}[prop] * k
        for _ in range(n):
            cap = rng.choice([1, 2, 3, 7, 18, 4096, 65536])
            level = rng.randrange(1, 10)
            payload = rng.choice(["ramp", "zeros", "rand", "rand"])
            nops = rng.randrange(0, 7)
            prog = []
            for _i in range(nops):
                r = rng.random()
                if r < 0.5:
                    prog.append(["write", rng.choice([0, 1, 2, 5, 17, 100, 300, 5000 if cap > 10 else 40])])
                elif r < 0.6:
                    prog.append(["writev", rng.choice([0, 1, 2, 5, 17, 100, 300, 5000 if cap > 10 else 40])])
                elif r < 0.9:
                    prog.append(["flush", 0])
                elif prop in ("C11", "C20", "C12"):
                    prog.append(["abort", 0])
            prog.append(["drop", 0])
            add(cap=cap, level=level, ae="gzip", abs=ae_abs([("gzip", 1000)]), prog=prog, payload=payload,
                pseed=rng.randrange(1 << 30), rand_steps=rng.choice([0, 0, 300]), rseed=rng.randrange(1 << 30),
                rand_cdrop=prop in ("C11",) and rng.random() < 0.5, extra=1)
    if prop in ("C09", "C08", "C17"):
        # writes larger than any internal buffer of the encoder (incompressible data: the compressed
        # output of one write exceeds the encoder's own 32 KiB buffer, so writes are short), plain and vectored
        for i in range((24 if prop == "C09" else 8) * k):
            cap = rng.choice([4096, 65536, 100000])
            total = rng.choice([40000, 70000, 150000, 400000])
            gzip = prop != "C08"
            prog = []
            for _j in range(rng.randrange(1, 4)):
                prog.append([rng.choice(["write", "writev", "writev"]), total])
                if rng.random() < 0.5:
                    prog.append(["flush", 0])
            prog.append(["drop", 0])
            add(cap=cap, level=rng.randrange(1, 10), ae="gzip" if gzip else None, abs=ae_abs([("gzip", 1000)]) if gzip else dict(ABSENT),
                prog=prog, payload=rng.choice(["rand", "rand", "ramp"]) if gzip else "ramp",
                pseed=rng.randrange(1 << 30), rand_steps=rng.choice([0, 200]), rseed=rng.randrange(1 << 30), extra=1)
    if prop in ("C17", "C15"):
        for hdr, a in AE_CHOICES:
            for level in range(0, 11):      # 10 is accepted by the encoder too
                for method in ("GET", "HEAD", "POST"):
                    for parts in (False, True):
                        cap = rng.choice([1, 7, 4096])
                        add(cap=cap, level=level, ae=hdr, abs=a, method=method, parts=parts,
                            prog=[["write", 5], ["flush", 0], ["write", 40], ["drop", 0]], payload=rng.choice(["ramp", "zeros", "rand"]),
                            pseed=rng.randrange(1 << 30), extra=1)
        # repeated Accept-Encoding field lines (should_gzip consults the first; no abstract view)
        for l1, l2 in (("identity", "gzip"), ("gzip", "identity"), ("gzip;q=0", "gzip"), ("br", "*"), ("", "gzip"), ("*;q=0", "gzip")):
            for level in (0, 6):
                for method in ("GET", "HEAD"):
                    add(cap=7, level=level, ae=l1, ae2=l2, abs={"k": "garbage"}, method=method, parts=rng.random() < 0.5,
                        prog=[["write", 20], ["drop", 0]], extra=1)
        # sequences of builder calls: only the last with_gzip_level counts
        for hdr, a in AE_CHOICES[:6]:
            for seq in ([0, 5], [0, 0, 9], [7, 0], [3, 0, 1], [9, 1], [0, 6, 0]):
                for method in ("GET", "HEAD"):
                    add(cap=rng.choice([1, 7, 4096]), levels=seq[:-1], level=seq[-1], ae=hdr, abs=a, method=method,
                        parts=rng.random() < 0.5, prog=[["write", 12], ["flush", 0], ["write", 30], ["drop", 0]],
                        payload="ramp", extra=1)
        # Accept-Encoding renderings from the C16 generator
        nc = neg_cases("quick", seed)
        rng.shuffle(nc)
        for c in nc[: (600 * k)]:
            if c["hdr"] is None or isinstance(c["hdr"], str):
                add(cap=rng.choice([1, 7, 4096]), level=rng.choice([0, 1, 6, 9]), ae=c["hdr"], abs=c["abs"],
                    method=rng.choice(["GET", "HEAD", "POST"]), parts=rng.random() < 0.5,
                    prog=[["write", 9], ["drop", 0]], extra=1)
    for i, c in enumerate(cases):
        c["id"] = i + 1
        c["cls"] = "stream"
    return cases


def stream_nontrivial(prop, c):
    prog = c.get("prog", [])
    if prop == "C08":
        return any(o[0] == "write" and o[1] > 0 for o in prog)
    if prop == "C09":
        return c.get("ae") == "gzip"
    if prop == "C10":
        return len(prog) > 1
    if prop == "C11":
        return any(o[0] == "abort" for o in prog) or c.get("rand_cdrop") or any(s[:2] == ["C", "drop"] for s in c.get("sched", []))
    return True
