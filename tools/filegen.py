"""Case generation for the file (ChunkedReadFile) and directory (FsDir) engines."""
import itertools
import random

CH = 65536
SIZES = [0, 1, 65535, 65536, 65537, 131072, 200001]


def interesting_points(size):
    pts = {0, 1, size - 1, size}
    for bnd in (CH, 2 * CH, 3 * CH):
        for d in (-1, 0, 1):
            pts.add(bnd + d)
    return sorted(p for p in pts if 0 <= p <= size)


def file_cases(tier, seed):
    rng = random.Random(seed)
    T = tier == "thorough"
    cases = []

    def add(**kw):
        kw["id"] = len(cases) + 1
        cases.append(kw)

    for size in SIZES:
        pts = interesting_points(size)
        ranges = [(a, b) for a in pts for b in pts if a <= b]
        if not T and len(ranges) > 40:
            rng.shuffle(ranges)
            ranges = ranges[:40] + [(0, size), (0, 0), (size, size)]
        for a, b in ranges:
            mt_ns = rng.choice([0, 1, 500000000, 999999999])
            add(kind="stream", size=size, a=a, b=b, mt_s=1000000000 + rng.randrange(1000), mt_ns=mt_ns)
            if b > a:
                # truncation to every interesting length before poll 0..3
                lens = sorted(set(x for x in [0, a, a + 1, b - 1, (a // CH + 1) * CH - 1, (a // CH + 1) * CH, max(a, b - CH)]
                                  if 0 <= x < size))
                picks = [(k, l) for k in range(0, 4) for l in lens]
                if not T:
                    rng.shuffle(picks)
                    picks = picks[:4]
                for k, l in picks:
                    add(kind="stream", size=size, a=a, b=b, trunc=[[k, l]], mt_s=1000000000, mt_ns=mt_ns)
                if rng.random() < (1.0 if T else 0.4):
                    add(kind="serve", size=size, a=a, b=b, mt_s=1000000000, mt_ns=mt_ns)
                    k, l = rng.choice([(k, l) for k in range(0, 3) for l in lens])
                    add(kind="serve", size=size, a=a, b=b, trunc=[[k, l]], mt_s=1000000000, mt_ns=mt_ns)
    # seeded random sizes / ranges / double truncations
    for _ in range(3000 if T else 300):
        size = rng.choice([rng.randrange(0, 300), rng.randrange(0, 3 * CH + 10)])
        a = rng.randrange(0, size + 1)
        b = rng.randrange(a, size + 1)
        tr = sorted([[rng.randrange(0, 5), rng.randrange(0, size + 1)] for _ in range(rng.randrange(0, 3))])
        add(kind=rng.choice(["stream", "stream", "serve"]) if b > a else "stream", size=size, a=a, b=b, trunc=tr,
            mt_s=1000000000, mt_ns=rng.choice([0, 7]))
    # modification times around and before the epoch (a file dated 1969 is still a regular file)
    for mt_s, mt_ns in ((0, 0), (0, 1), (-1, 0), (-1, 999999999), (-2, 500000000), (-86400 * 365 * 30, 7)):
        add(kind="stream", size=10, a=2, b=9, mt_s=mt_s, mt_ns=mt_ns)
    # version histories
    steps_pool = [["open"], ["append", 1], ["append", 70000], ["touch", 1000000005, 0], ["touch", 1000000000, 1],
                  ["touch", 1000000000, 999999999], ["rewrite"], ["replace"], ["touch", -1, 500000000], ["touch", 0, 500000000],
                  ["touch", -2, 500000000],
                  # the same instant 2^32 and 2^33 seconds later (whole and with the nanoseconds of the start)
                  ["touch", 1000000000 + 2 ** 32, 0], ["touch", 1000000000 + 2 ** 32, 123456789], ["touch", 1000000000 + 2 ** 33, 0]]
    for n in (1, 2, 3):
        combos = list(itertools.product(steps_pool, repeat=n))
        if not T and len(combos) > 150:
            rng.shuffle(combos)
            combos = combos[:150]
        for steps in combos:
            add(kind="history", size=rng.choice([0, 4, 70000]), mt_s=1000000000, mt_ns=rng.choice([0, 123456789]),
                steps=[list(s) for s in steps])
    for t in ("dir", "devnull", "devzero", "socket", "symlink_handle", "fifo"):
        add(kind="nonregular", target=t)
    # clones of one entity streamed concurrently on several threads
    for i in range(3 if not T else 10):
        add(kind="concurrent", size=rng.choice([200001, 4 * 65536 + 3]), threads=4 + (i % 3), reps=40 if not T else 150)
    for c in big_and_odd_cases(tier, rng):
        add(**c)
    # a file written just now (modification time = the current second): same strong tag from every
    # instance, also one opened more than a second later
    add(kind="fresh", size=20, wait_ms=1100)
    return cases


def big_and_odd_cases(tier, rng):
    """Sparse files with lengths / offsets / range lengths around 2^31, 2^32, 2^33 (first chunks only),
    and regular files whose reads come back short (kernel-generated)."""
    T = tier == "thorough"
    out = []
    G = 1 << 32
    sizes = [G + 5, G, G - 1, 2 * G + 1, (1 << 31) + 7, 3 * G, (1 << 33) + 65536 + 1]
    for size in sizes:
        rs = [(0, size), (5, size), (size - G, size), (size - G - 1, size), (0, G), (1, G + 1), (size - 3, size),
              (size - 65536 - 1, size), (G - 65536, G + 65536), ((1 << 31) - 1, (1 << 31) + 70000)]
        rs = [(max(a, 0), min(b, size)) for a, b in rs]
        rs = sorted(set((a, b) for a, b in rs if a <= b))
        if not T:
            rng.shuffle(rs)
            rs = rs[:5]
        for a, b in rs:
            out.append(dict(kind="sparse", size=size, a=a, b=b, polls=rng.choice([3, 5]), mt_s=1000000000 + rng.randrange(1000),
                            mt_ns=rng.choice([0, 999999999])))
    # [permille of the length, offset, length]
    ranges = [[0, 0, 70000], [0, 1, 1], [0, 4095, 4098], [500, 3, 200000], [990, 0, 10 ** 9], [1000, 0, 0], [250, 65535, 65538]]
    for _ in range(8 if T else 2):
        ranges.append([rng.randrange(0, 1000), rng.randrange(0, 70000), rng.randrange(1, 300000)])
    out.append(dict(kind="oddfile", path="/sys/kernel/btf/vmlinux", ranges=ranges))
    return out


def odd_cases(tier, seed):
    rng = random.Random(seed)
    cases = []
    for c in big_and_odd_cases(tier, rng):
        if c["kind"] == "oddfile":
            c["id"] = len(cases) + 1
            cases.append(c)
    return cases


# ---------------------------------------------------------------- FsDir

SEGS = ["a", "sub", "..", ".", "...", "..a", "a..", "", "secret", "b", "b.gz", "c", "x", "a.gz", "c.gz", "a.gz.gz"]
AE = [(None, {"k": "absent"}), ("gzip", {"k": "list", "l": [{"c": "gzip", "q": 1000}]}),
      ("gzip;q=0", {"k": "list", "l": [{"c": "gzip", "q": 0}]}),
      ("identity", {"k": "list", "l": [{"c": "identity", "q": 1000}]}),
      ("*", {"k": "list", "l": [{"c": "*", "q": 1000}]}),
      ("gzip;q=0.5, identity", {"k": "list", "l": [{"c": "gzip", "q": 500}, {"c": "identity", "q": 1000}]}),
      ("GZIP;q=0, *", {"k": "list", "l": [{"c": "gzip", "q": 0}, {"c": "*", "q": 1000}]}),
      ("Gzip;Q=1", {"k": "list", "l": [{"c": "gzip", "q": 1000}]})]


def dir_cases(tier, seed):
    rng = random.Random(seed)
    T = tier == "thorough"
    cases = []
    maxseg = 4 if T else 3
    core = SEGS[:9]
    paths = []
    for n in range(1, maxseg + 1):
        alphabet = SEGS if n <= 2 else core
        for segs in itertools.product(alphabet, repeat=n):
            paths.append(list(segs))
    if not T:
        small = [p for p in paths if len(p) <= 2]
        big = [p for p in paths if len(p) > 2]
        rng.shuffle(big)
        paths = small + big[:1200]
    for segs in paths:
        variants = [(segs, -1)]
        if rng.random() < 0.3:
            variants.append(([""] + segs, -1))                     # leading slash
        if rng.random() < 0.3:
            variants.append((segs + [""], -1))                     # trailing slash
        s = "/".join(segs)
        if rng.random() < (0.5 if T else 0.15):
            variants.append((segs, rng.randrange(0, len(s) + 1)))  # NUL injected
        for sg, nulpos in variants:
            p = "/".join(sg)
            if nulpos >= 0:
                p = p[:nulpos] + "\x00" + p[nulpos:]
            hdr, abs_ae = rng.choice(AE)
            for auto in ((True, False) if rng.random() < 0.5 else (True,)):
                cases.append({"path": p, "abs": {"segs": sg, "nul": nulpos >= 0}, "ae": hdr, "abs_ae": abs_ae, "auto_gzip": auto})
    # every Accept-Encoding x auto_gzip on the names with .gz siblings / .gz directories
    for p in ["a.gz", "sub/c.gz", "a.gz.gz", "sub/c.gz.gz", "a", "b", "sub/a", "sub/c", "...", "sub/", "sub", "", ".", "a.", "sub/...", "sub/a..", "a..", "x", "b.gz", "b.gz/x", "dev", "dev.gz", "dev/"]:
        for hdr, abs_ae in AE:
            for auto in (True, False):
                cases.append({"path": p, "abs": {"segs": p.split("/"), "nul": False}, "ae": hdr, "abs_ae": abs_ae, "auto_gzip": auto})
    # paths around PATH_MAX (4096 bytes including the terminating NUL): `.` and empty segments as padding,
    # every total length 4086..4100, tails that would turn into something else if the path were cut
    for total in range(4086, 4101):
        for tail in (["a"], ["..a"], ["..hidden"], ["sub", "c"], ["secret"], ["..."]):
            t = "/".join(tail)
            pad = total - len(t)
            segs = ["sub"] if pad % 2 == 0 else ["sub", ""]       # "sub/" (4 bytes) or "sub//" (5)
            pad -= 4 if pad % 2 == 0 else 5
            segs = segs + ["."] * (pad // 2) + tail
            path = "/".join(segs)
            assert len(path) == total, (len(path), total)
            hdr, abs_ae = rng.choice(AE[:2])
            cases.append({"path": path, "abs": {"segs": segs, "nul": False}, "ae": hdr, "abs_ae": abs_ae,
                          "auto_gzip": rng.random() < 0.5})
    for i, c in enumerate(cases):
        c["id"] = i + 1
    return cases


def file_echo_cases(tier, seed):
    """Two-request histories over real files with sub-second modification times (C14)."""
    rng = random.Random(seed)
    names = ["inm", "ims", "im", "ius", "ir"]
    cases = []
    for r in range(0, 6):
        for S in itertools.combinations(names, r):
            for mt_ns in (0, 1, 500000000, 999999999):
                cases.append({"kind": "echo", "echo": list(S), "size": rng.choice([0, 1, 10, 70000]),
                              "mt_s": 1000000000 + rng.randrange(100000), "mt_ns": mt_ns,
                              "emethod": rng.choice(["GET", "HEAD"])})
    for i, c in enumerate(cases):
        c["id"] = i + 1
    return cases
