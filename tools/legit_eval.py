#!/usr/bin/env python3
"""False-alarm run: applies a behaviour-preserving patch (absolute path) to /repo's working tree, runs the
listed quick checks (default: all 20), records every non-zero exit / VIOLATION line, restores /repo.
Every alarm here is a defect of the machinery (or shows the patch is not behaviour-preserving after all).
Not part of any registered check.

usage: legit_eval.py <patch> [C01,C02,...] [--par N]
"""
import concurrent.futures
import json
import os
import subprocess
import sys
import time

VERIF = os.path.dirname(os.path.dirname(os.path.abspath(__file__)))
ALL = ["C%02d" % i for i in range(1, 21)]


def sh(cmd, **kw):
    return subprocess.run(cmd, shell=True, stdout=subprocess.PIPE, stderr=subprocess.STDOUT, text=True, **kw)


def main():
    args = sys.argv[1:]
    par = 2
    if "--par" in args:
        i = args.index("--par")
        par = int(args[i + 1])
        del args[i:i + 2]
    patch = os.path.abspath(args[0])
    checks = args[1].split(",") if len(args) > 1 else ALL
    assert sh("git -C /repo status --porcelain").stdout.strip() == "", "/repo not clean"
    r = sh("git -C /repo apply %s" % patch)
    if r.returncode != 0:
        print("patch does not apply:", r.stdout)
        return 2
    out = {}
    try:
        b = sh("cd %s && ./check --build-only" % VERIF)
        if b.returncode != 0:
            print("build failed:\n" + b.stdout[-3000:])
            return 2

        def one(c):
            t = time.time()
            r = sh("cd %s && ./check %s --tier quick" % (VERIF, c), timeout=3600)
            v = [l for l in r.stdout.splitlines() if l.startswith("VIOLATION") or l.startswith("KNOWN-FINDING")]
            return c, r.returncode, v, round(time.time() - t), r.stdout[-1500:] if r.returncode != 0 else ""
        with concurrent.futures.ThreadPoolExecutor(max_workers=par) as ex:
            for c, rc, v, dt, tail in ex.map(one, checks):
                out[c] = {"rc": rc, "lines": v, "secs": dt}
                print(c, "rc=%d" % rc, "%ds" % dt, *v, flush=True)
                if rc != 0:
                    print(tail, flush=True)
    finally:
        sh("git -C /repo checkout -- .")
        left = sh("git -C /repo status --porcelain").stdout.strip()
        if left:
            print("WARNING /repo not clean after restore:", left)
    name = os.path.basename(os.path.dirname(patch)) if os.path.basename(patch) == "patch.diff" else os.path.basename(patch)
    rp = os.path.join(VERIF, "legit", "results.json")
    res = json.load(open(rp)) if os.path.exists(rp) else {}
    res.setdefault(name, {}).update(out)
    json.dump(res, open(rp, "w"), indent=1, sort_keys=True)
    bad = [c for c in out if out[c]["rc"] != 0]
    print("SILENT" if not bad else "ALARMS: " + ",".join(bad))
    return 0 if not bad else 1


if __name__ == "__main__":
    sys.exit(main())
