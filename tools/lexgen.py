"""Spec -> implementation for the header grammars: runs TLC on spec/HdrLexGen.tla, which enumerates every
string of up to N symbols over the alphabet of a header and prints it with the abstract view that
spec/HdrLex.tla (a transcription of the RFC grammar) reads from it."""
import json
import os
import re
import shutil

import vlib

_cache = {}


def cases(mode, n):
    """[(string, abs)] for every string of up to n symbols; abs as printed by TLC (character sequences
    are joined into strings)."""
    if (mode, n) in _cache:
        return _cache[(mode, n)]
    d = os.path.join(vlib.WORK, "lexgen", "%s_%d_%d" % (mode, n, os.getpid()))
    shutil.rmtree(d, ignore_errors=True)
    os.makedirs(d)
    vlib.copy_specs(d)
    cfg = 'SPECIFICATION Spec\nCONSTANTS\n  Mode = "%s"\n  N = %d\n' % (mode, n)
    rc, out = vlib.run_tlc(d, "HdrLexGen", cfg, workers=1, timeout=900, xmx="4g")
    res = []
    for line in out.splitlines():
        m = re.match(r'<<"CASE", (".*")>>$', line.strip())
        if m:
            c = json.loads(json.loads(m.group(1)))
            a = c["abs"]
            if "tags" in a:
                a["tags"] = [{"w": t["w"], "op": "".join(t["op"])} for t in a["tags"]]
            if "l" in a:
                a["l"] = [{"c": "".join(e["c"]), "q": e["q"]} for e in a["l"]]
            res.append(("".join(c["s"]), a))
    if "Model checking completed" not in out or not res:
        raise vlib.ToolError("HdrLexGen %s/%d did not run: %s" % (mode, n, out[-800:]))
    shutil.rmtree(d, ignore_errors=True)
    _cache[(mode, n)] = res
    return res
