#!/usr/bin/env python3
"""seed_eval.py <worktree> <property> <name> [extra checks...]
Confirms a sub-agent's seeded change (existing tests pass with it; demo fails with it and passes
without it), stores it under /verif/seeded/<name>/, runs the checks against it and records the
outcome in meta.json."""
import json
import os
import shutil
import subprocess
import sys

VERIF = os.path.dirname(os.path.dirname(os.path.abspath(__file__)))


def sh(cmd, cwd=None, timeout=3600):
    p = subprocess.run(cmd, shell=True, cwd=cwd, stdout=subprocess.PIPE, stderr=subprocess.STDOUT, text=True, timeout=timeout)
    return p.returncode, p.stdout


def results(out):
    return [l.strip() for l in out.splitlines() if l.startswith("test result")]


def main():
    argv = [a for a in sys.argv[1:] if not a.startswith("--")]
    confirm_only = "--confirm-only" in sys.argv
    check_only = "--check-only" in sys.argv
    wt, prop, name = argv[0:3]
    checks = [prop] + argv[3:]
    if check_only:
        return run_checks(os.path.join(VERIF, "seeded", name), checks)
    d = os.path.join(VERIF, "seeded", name)
    os.makedirs(d, exist_ok=True)
    rc, diff = sh("git diff -- src/", cwd=wt)
    assert diff.strip(), "no src change in worktree"
    open(os.path.join(d, "patch.diff"), "w").write(diff)
    shutil.copy(os.path.join(wt, "tests", "seeded_demo.rs"), os.path.join(d, "seeded_demo.rs"))
    if os.path.exists(os.path.join(wt, "NOTES.md")):
        shutil.copy(os.path.join(wt, "NOTES.md"), os.path.join(d, "NOTES.md"))
    meta = {"property": prop, "name": name, "ran": []}
    # 1. existing suite with the change (demo moved aside)
    sh("mv tests/seeded_demo.rs /tmp/%s_demo.rs" % name, cwd=wt)
    rc1, o1 = sh("cargo test --offline --no-fail-fast 2>&1", cwd=wt)
    rc1d, o1d = sh("cargo test --offline --features dir --no-fail-fast 2>&1", cwd=wt)
    meta["existing_suite_with_change"] = {"rc": rc1, "results": results(o1), "rc_dir": rc1d, "results_dir": results(o1d)}
    sh("mv /tmp/%s_demo.rs tests/seeded_demo.rs" % name, cwd=wt)
    # 2. demo with the change
    feat = " --features dir" if "C19" in name else ""
    rc2, o2 = sh("cargo test --offline%s --test seeded_demo 2>&1" % feat, cwd=wt)
    meta["demo_with_change"] = {"rc": rc2, "results": results(o2)}
    # 3. demo without
    pd = os.path.join(d, "patch.diff")
    rcr, orr = sh("git apply -R %s" % pd, cwd=wt)
    assert rcr == 0, orr
    rc3, o3 = sh("cargo test --offline%s --test seeded_demo 2>&1" % feat, cwd=wt)
    rcr, orr = sh("git apply %s" % pd, cwd=wt)
    assert rcr == 0, orr
    meta["demo_without_change"] = {"rc": rc3, "results": results(o3)}
    meta["confirmed"] = rc1 == 0 and rc1d == 0 and rc2 != 0 and rc3 == 0
    meta["ran"] += ["cargo test --offline --no-fail-fast (change applied, demo aside)",
                    "cargo test --offline --features dir --no-fail-fast (change applied, demo aside)",
                    "cargo test --offline --test seeded_demo (change applied): must fail",
                    "git apply -R patch.diff; cargo test --offline --test seeded_demo: must pass; git apply patch.diff"]
    print(json.dumps({k: meta[k] for k in ("existing_suite_with_change", "demo_with_change", "demo_without_change", "confirmed")}, indent=1))
    json.dump(meta, open(os.path.join(d, "meta.json"), "w"), indent=1)
    if confirm_only:
        return
    run_checks(d, checks)


def run_checks(d, checks):
    meta = json.load(open(os.path.join(d, "meta.json")))
    # 4. our checks against it
    assert sh("git -C /repo status --porcelain")[1].strip() == "", "/repo not clean"
    rc, o = sh("git -C /repo apply %s" % os.path.join(d, "patch.diff"))
    assert rc == 0, o
    try:
        meta["checks"] = {}
        for c in checks:
            rc, o = sh("./check %s" % c, cwd=VERIF)
            flagged = rc == 1 and ("VIOLATION property=%s" % c) in o
            meta["checks"][c] = {"rc": rc, "flagged": flagged,
                                 "lines": [l for l in o.splitlines() if l.startswith(("VIOLATION", "  case", "  failed", "TOOL", "== "))][:8]}
            print(c, "rc=%d flagged=%s" % (rc, flagged))
            meta["ran"].append("git -C /repo apply patch.diff; ./check %s (quick); git -C /repo checkout -- ." % c)
    finally:
        sh("git -C /repo checkout -- .")
    json.dump(meta, open(os.path.join(d, "meta.json"), "w"), indent=1)


if __name__ == "__main__":
    main()
