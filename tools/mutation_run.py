#!/usr/bin/env python3
"""Mutation run: applies each patch of /verif/mutants (or /verif/seeded/*/patch.diff) to /repo's
working tree, confirms the repository's own tests still pass, runs the listed checks, records
which ones report a VIOLATION, and restores /repo.  Not part of any registered check.

usage: mutation_run.py [--checks C01,C02,...] [--no-baseline] name ...
"""
import json
import os
import subprocess
import sys
import time

VERIF = os.path.dirname(os.path.dirname(os.path.abspath(__file__)))

EXPECT = {
    "F1_range_overflow": ["C03"], "F1b_range_overflow_plus1": ["C03", "C13"], "F2_zero_suffix": ["C03"], "F3_suffix_clamp": ["C03"],
    "F4_subsecond": ["C04", "C14"], "F5_ifmatch_ius": ["C04"], "F6_multipart_fuse": ["C20", "C12"],
    "F7_reader_drop": ["C11"], "F8_plus_sign": ["C03"], "F9_file_stream_not_fused": ["C20", "C13"],
    "F10_gzip_flush_lost_sync": ["C09"], "F11_etag_pre_epoch": ["C18"], "F12_serve_pre_epoch": ["C13"], "F13_coding_case": ["C16", "C17"], "F14_ows_before_comma": ["C04"], "F15_gz_probe_name_too_long": ["C19"],
    "M_cl_plus1": ["C01"], "M_ifmatch_weak": ["C04"], "M_ifrange_weak": ["C05"],
    "M_multipart_trailer_len": ["C06", "C01"], "M_short_ok": ["C07"], "M_head_fetches": ["C15"],
    "M_304_entity_headers": ["C14"], "M_gzip_gt": ["C16"], "M_star_identity": ["C16"],
    "M_no_wake_on_drop": ["C10"], "M_waker_not_refreshed": ["C10"], "M_fused_pending": ["C10"],
    "M_abort_clean": ["C11"], "M_eos_err": ["C11", "C12"], "M_flush_keeps_one": ["C08"],
    "M_gz_flush_inner_only": ["C09"], "M_hint_upper": ["C12"], "M_level0_header": ["C17"],
    "M_head_writer": ["C15", "C17"], "M_lifo": ["C08"], "L_partial_chunking": [], "L_allow_case": [], "L_boundary": [], "L_chunk_double": [], "L_extra_header": [],
    "L_ifrange_date_equal": [], "L_messages": [], "L_multipart_half": [], "L_part_header_lowercase": [], "L_vary_case": [],
    "M_zero_read_loop": ["C18"], "M_etag_micros": ["C18"], "M_chunk_overread": ["C18"],
    "M_dotdot_last": ["C19"], "M_gz_dir": ["C19"], "M_dots_overreject": ["C19"], "M_vary_only_gz": ["C19"],
}


def sh(cmd, **kw):
    return subprocess.run(cmd, shell=True, stdout=subprocess.PIPE, stderr=subprocess.STDOUT, text=True, **kw)


def main():
    args = sys.argv[1:]
    checks = None
    baseline = True
    names = []
    while args:
        a = args.pop(0)
        if a == "--checks":
            checks = args.pop(0).split(",")
        elif a == "--no-baseline":
            baseline = False
        else:
            names.append(a)
    if not names:
        names = sorted(f[:-6] for f in os.listdir(os.path.join(VERIF, "mutants")) if f.endswith(".patch"))
    results = {}
    rpath = os.path.join(VERIF, "mutants", "results.json")
    if os.path.exists(rpath):
        results = json.load(open(rpath))
    for name in names:
        patch = os.path.join(VERIF, "mutants", name + ".patch")
        if not os.path.exists(patch):
            patch = os.path.join(VERIF, "seeded", name, "patch.diff")
        assert sh("git -C /repo status --porcelain").stdout.strip() == "", "/repo not clean"
        r = sh("git -C /repo apply %s" % patch)
        if r.returncode != 0:
            print("%s: patch does not apply: %s" % (name, r.stdout))
            continue
        try:
            rec = {"expected": EXPECT.get(name), "flagged": [], "silent": [], "tool_error": []}
            if baseline:
                t = sh("cd /repo && timeout 300 cargo test --workspace --no-fail-fast --offline 2>&1 | grep -E '^test result' ")
                rec["baseline_tests_pass"] = "FAILED" not in t.stdout and "failed; " in t.stdout and \
                    all(" 0 failed" in l for l in t.stdout.splitlines())
            todo = checks or EXPECT.get(name) or ["C01"]
            for c in todo:
                t0 = time.time()
                p = sh("cd %s && ./check %s" % (VERIF, c))
                if p.returncode == 1 and "VIOLATION property=%s" % c in p.stdout:
                    rec["flagged"].append(c)
                elif p.returncode == 0:
                    rec["silent"].append(c)
                else:
                    rec["tool_error"].append(c)
                    print(p.stdout[-800:])
                print("  %s / %s: rc=%d (%.0fs)" % (name, c, p.returncode, time.time() - t0), flush=True)
            results[name] = rec
            print("%s: %s" % (name, json.dumps(rec)), flush=True)
        finally:
            sh("git -C /repo checkout -- .")
    json.dump(results, open(rpath, "w"), indent=1, sort_keys=True)


if __name__ == "__main__":
    main()
