"""Driver library: harness build, TLC runs (exhaustive and trace validation), sharding,
evidence, known findings.  stdlib only."""
import concurrent.futures
import json
import os
import re
import shutil
import subprocess
import sys
import time

VERIF = os.path.dirname(os.path.dirname(os.path.abspath(__file__)))
SPEC = os.path.join(VERIF, "spec")
WORK = os.path.join(VERIF, "work")
HARNESS = os.path.join(VERIF, "harness")
VH = os.path.join(HARNESS, "target", "debug", "vh")
VH_REL = os.path.join(HARNESS, "target", "rel", "vh")
VARIANTS = [("dev", VH), ("rel", VH_REL)]
NCPU = os.cpu_count() or 4


class ToolError(Exception):
    pass


def log(*a):
    print(*a, flush=True)


def workdir(name):
    d = os.path.join(WORK, name)
    shutil.rmtree(d, ignore_errors=True)
    os.makedirs(d)
    return d


def build_harness():
    """Rebuild the harness against /repo's current working tree (path dependency)."""
    t = time.time()
    lock = os.path.join(HARNESS, "Cargo.lock")
    if not os.path.exists(lock):
        shutil.copy("/repo/Cargo.lock", lock)
    env = dict(os.environ, CARGO_NET_OFFLINE="true")
    for extra in ([], ["--profile", "rel"]):
        p = subprocess.run(["cargo", "build", "--offline", "--quiet"] + extra, cwd=HARNESS, env=env,
                           stdout=subprocess.PIPE, stderr=subprocess.STDOUT, text=True)
        if p.returncode != 0:
            sys.stderr.write(p.stdout[-4000:])
            raise ToolError("harness build failed (does /repo still compile with features dir,verif-hooks?)")
    return time.time() - t


def write_ndjson(path, items):
    with open(path, "w") as f:
        for it in items:
            f.write(json.dumps(it, separators=(",", ":")))
            f.write("\n")


def read_ndjson(path):
    out = []
    with open(path) as f:
        for line in f:
            line = line.strip()
            if line:
                out.append(json.loads(line))
    return out


def tla_set(xs):
    return "{" + ", ".join('"%s"' % x for x in sorted(xs)) + "}"


def copy_specs(d):
    for f in os.listdir(SPEC):
        if f.endswith(".tla"):
            shutil.copy(os.path.join(SPEC, f), d)


TLC_JAR = "/opt/veriftools/tla/tla2tools.jar:/opt/veriftools/tla/CommunityModules-deps.jar"


def run_tlc(d, module, cfg_text, workers=1, timeout=600, env_extra=None, xmx="2g", extra_args=(), deque=False):
    """Runs TLC on `module` in directory d (specs must already be there). Returns (rc, output)."""
    with open(os.path.join(d, module + ".cfg"), "w") as f:
        f.write(cfg_text)
    env = dict(os.environ)
    opts = "-Xss1g"
    if deque:
        opts += " -Dtlc2.tool.queue.IStateQueue=StateDeque"
    env["JAVA_TOOL_OPTIONS"] = opts
    if env_extra:
        env.update(env_extra)
    cmd = ["java", "-XX:+UseParallelGC", "-Xmx" + xmx, "-cp", TLC_JAR, "tlc2.TLC",
           "-workers", str(workers), "-metadir", os.path.join(d, "states_" + module), "-cleanup",
           "-noGenerateSpecTE", "-maxSetSize", "20000000", "-config", module + ".cfg"] + list(extra_args) + [module + ".tla"]
    try:
        p = subprocess.run(cmd, cwd=d, env=env, stdout=subprocess.PIPE, stderr=subprocess.STDOUT, text=True,
                           timeout=timeout)
    except subprocess.TimeoutExpired as e:
        raise ToolError("TLC timeout on %s after %ss" % (module, timeout))
    shutil.rmtree(os.path.join(d, "states_" + module), ignore_errors=True)
    return p.returncode, p.stdout


def parse_tlc_stats(out):
    """states generated / distinct, and whether an error was reported."""
    m = re.search(r"(\d+) states generated, (\d+) distinct states found", out)
    gen, dist = (int(m.group(1)), int(m.group(2))) if m else (0, 0)
    err = None
    m2 = re.search(r"Error: (.*)", out)
    if m2:
        err = m2.group(1)
    return {"generated": gen, "distinct": dist, "error": err,
            "ok": "Model checking completed. No error has been found." in out}


def parse_coverage(out):
    """Per-action evaluation counts from -coverage output: {action: count}."""
    cov = {}
    for m in re.finditer(r"<(\w+) line \d+, col \d+ to line \d+, col \d+ of module (\w+)>: (\d+):(\d+)", out):
        cov[m.group(2) + "." + m.group(1)] = max(cov.get(m.group(2) + "." + m.group(1), 0), int(m.group(4)))
    return cov


# ------------------------------------------------------------------ trace validation

def shard(items, n):
    n = max(1, min(n, len(items)))
    k = (len(items) + n - 1) // n
    return [items[i:i + k] for i in range(0, len(items), k)]


def run_harness(engine, cases_path, trace_path, timeout=900, vh=None):
    p = subprocess.run([vh or VH, engine, cases_path, trace_path], stdout=subprocess.PIPE, stderr=subprocess.PIPE,
                       text=True, timeout=timeout)
    if p.returncode != 0:
        raise ToolError("harness %s failed rc=%s: %s" % (engine, p.returncode, p.stderr[-2000:]))
    return p.stdout


def validate_shard(args):
    """Runs harness + TLC trace validation for one shard, once per build variant (dev: debug
    assertions and overflow checks on; rel: both off).  Returns the merged result record."""
    (d, idx, engine, trace_module, cases, constants, timeout) = args
    sd = os.path.join(d, "s%02d" % idx)
    os.makedirs(sd, exist_ok=True)
    copy_specs(sd)
    cpath = os.path.join(sd, "cases.ndjson")
    write_ndjson(cpath, cases)
    cfg = "SPECIFICATION Spec\nCONSTANTS\n" + "\n".join("  %s = %s" % kv for kv in constants.items()) + \
          "\nPOSTCONDITION Accepted\nCHECK_DEADLOCK FALSE\n"
    merged = {"shard": idx, "harness_s": 0.0, "tlc_s": 0.0, "states": 0, "generated": 0, "events": 0, "cases": 0,
              "viol": [], "drift": [], "dir": sd}
    for vname, vh in VARIANTS:
        tpath = os.path.join(sd, "trace_%s.ndjson" % vname)
        opath = os.path.join(sd, "result_%s.ndjson" % vname)
        t = time.time()
        run_harness(engine, cpath, tpath, vh=vh)
        merged["harness_s"] += time.time() - t
        t = time.time()
        rc, out = run_tlc(sd, trace_module, cfg, workers=1, timeout=timeout,
                          env_extra={"TRACE": tpath, "OUT": opath}, deque=True)
        merged["tlc_s"] += time.time() - t
        if rc != 0 or not os.path.exists(opath):
            with open(os.path.join(sd, "tlc_%s.out" % vname), "w") as f:
                f.write(out)
            raise ToolError("trace validation did not complete for shard %d/%s (rc=%s); see %s/tlc_%s.out\n%s"
                            % (idx, vname, rc, sd, vname, out[-1500:]))
        res = read_ndjson(opath)[0]
        st = parse_tlc_stats(out)
        merged["states"] += st["distinct"]
        merged["generated"] += st["generated"]
        merged["events"] += res.get("events", 0)
        merged["cases"] = res.get("cases", 0)
        merged["viol"] += [v + [vname] for v in res.get("viol", [])]
        merged["drift"] += [v + [vname] for v in res.get("drift", [])]
        for k in ("heads", "polls", "steps"):
            if k in res:
                merged[k] = merged.get(k, 0) + res[k]
    return merged


def validate_cases(name, engine, trace_module, cases, constants, nshards=None, timeout=900):
    """Shards the cases, runs harness and TLC per shard in parallel, merges results.
    Case ids are renumbered globally so violations can be mapped back."""
    d = workdir(name)
    for i, c in enumerate(cases):
        c["id"] = i + 1
    nshards = nshards or min(NCPU, max(1, len(cases) // 200 + 1))
    shards = shard(cases, nshards)
    jobs = [(d, i, engine, trace_module, sh, constants, timeout) for i, sh in enumerate(shards)]
    results = []
    with concurrent.futures.ThreadPoolExecutor(max_workers=min(NCPU, len(jobs))) as ex:
        for r in ex.map(validate_shard, jobs):
            results.append(r)
    merged = {"events": 0, "cases": 0, "viol": [], "drift": [], "states": 0, "generated": 0, "shards": len(shards),
              "harness_s": 0.0, "tlc_s": 0.0, "dir": d}
    for r in results:
        for k in ("events", "cases", "states", "generated"):
            merged[k] += r.get(k, 0)
        merged["harness_s"] = max(merged["harness_s"], r["harness_s"])
        merged["tlc_s"] = max(merged["tlc_s"], r["tlc_s"])
        merged["viol"] += r.get("viol", [])
        merged["drift"] += r.get("drift", [])
        for k in ("heads", "polls", "steps"):
            if k in r:
                merged[k] = merged.get(k, 0) + r[k]
    return merged


# ------------------------------------------------------------------ known findings

def load_known():
    with open(os.path.join(VERIF, "known_findings.json")) as f:
        return json.load(f)


# ------------------------------------------------------------------ evidence

def write_evidence(prop, tier, seed, coverage, wall, violations, assumptions):
    os.makedirs(os.path.join(VERIF, "evidence"), exist_ok=True)
    ev = {"property_id": prop, "tier": tier, "seed": seed, "level": "model_checking", "coverage": coverage,
          "assumptions": assumptions, "wall_s": round(wall, 2), "violations": violations}
    with open(os.path.join(VERIF, "evidence", prop + ".json"), "w") as f:
        json.dump(ev, f, indent=1, sort_keys=True)


def run_apalache(d, module, inv, length=1, timeout=600):
    """Unbounded (SMT) check of a state invariant with Apalache; returns (ok, seconds, tail)."""
    os.makedirs(d, exist_ok=True)
    shutil.copy(os.path.join(SPEC, module + ".tla"), d)
    t = time.time()
    try:
        p = subprocess.run(["apalache-mc", "check", "--init=Init", "--next=Next", "--inv=" + inv, "--length=%d" % length,
                            "--out-dir=" + os.path.join(d, "_apalache-out"), module + ".tla"], cwd=d,
                           stdout=subprocess.PIPE, stderr=subprocess.STDOUT, text=True, timeout=timeout)
    except subprocess.TimeoutExpired:
        raise ToolError("apalache timeout on %s" % module)
    shutil.rmtree(os.path.join(d, "_apalache-out"), ignore_errors=True)
    ok = "The outcome is: NoError" in p.stdout
    return ok, time.time() - t, p.stdout[-1500:]


def run_tlaps(d, module, timeout=600):
    """Checks the TLAPS proofs of `module`; returns (proved, obligations, seconds, tail)."""
    os.makedirs(d, exist_ok=True)
    copy_specs(d)
    shutil.rmtree(os.path.join(d, ".tlacache"), ignore_errors=True)
    t = time.time()
    try:
        p = subprocess.run(["tlapm", "--threads", "8", module + ".tla"], cwd=d, stdout=subprocess.PIPE,
                           stderr=subprocess.STDOUT, text=True, timeout=timeout)
    except subprocess.TimeoutExpired:
        raise ToolError("tlapm timeout on %s" % module)
    m = re.search(r"All (\d+) obligations? proved", p.stdout)
    shutil.rmtree(os.path.join(d, ".tlacache"), ignore_errors=True)
    return (m is not None), (int(m.group(1)) if m else 0), time.time() - t, p.stdout[-1500:]
