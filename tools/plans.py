"""Per-property plans: which exhaustive TLC configurations and which case families decide a
property, and the generic runner (MC + trace validation + evidence + known findings)."""
import concurrent.futures
import hashlib
import json
import os
import re
import time

import vlib
import servegen

ALL_SERVE = ["C01", "C02", "C03", "C04", "C05", "C06", "C07", "C12", "C13", "C14", "C15", "C20"]

# ------------------------------------------------------------------ exhaustive TLC configurations

MC_DEFAULTS = {"MaxL": 5, "MaxSpecs": 2, "MaxItems": 2, "MaxExtra": 2, "MaxTags": 1, "PartEstimate": 1}


def serve_mc(mode, tier, **over):
    c = dict(MC_DEFAULTS)
    c["Mode"] = '"%s"' % mode
    if tier == "thorough":
        c.update({"MaxL": 5, "MaxItems": 3, "MaxExtra": 4, "MaxTags": 2})
        if mode == "big1":
            c.update({"MaxSpecs": 1, "Mode": '"big"', "PartEstimate": 80})
        if mode == "range3":
            c.update({"MaxL": 3, "MaxSpecs": 3, "Mode": '"range"'})
        if mode == "big":
            c["MaxSpecs"] = 2
    if mode == "big":
        c["PartEstimate"] = 80
        if tier == "quick":
            c["MaxSpecs"] = 1
    if mode == "big1":
        c.update({"MaxSpecs": 1, "Mode": '"big"', "PartEstimate": 80})
    c.update(over)
    c.update(over)
    return ("ServeMC", c, ["HeadInv", "PollInv", "BodyInv", "PairInv", "EnvelopeInv"],
            ["ServeMC.DoHead"] + (["ServeMC.DoPoll"] if mode == "body" else []))


SERVE_WITNESS = {
    "range3": ["W_416"], "big1": ["W_416"],
    "range": ["W_Multi", "W_416"], "big": ["W_416"], "cond": ["W_412", "W_304"], "ifrange": ["W_Multi"],
    "env": ["W_400", "W_412"], "body": ["W_ErrTerminal", "W_CleanMulti"],
}

# ------------------------------------------------------------------ case families per property


def serve_cases(prop, tier, seed):
    cb = servegen.CaseBuilder(seed)
    T = tier == "thorough"
    k = 5 if T else 1
    g = servegen
    if prop == "C01":
        g.fam_range_small(cb, n_pairs=600 * k, n_triples=200 * k)
        g.fam_range_multi(cb, n=500 * k, scripts=True, with_ifr=True)
        g.fam_range_big(cb, n_pairs=300 * k)
        g.fam_cond(cb, n=600 * k, long_lists=False)
        g.fam_env(cb, n=800 * k)
        g.fam_body(cb, n=2000 * k, extra=1)
    elif prop == "C02":
        g.fam_range_small(cb, n_pairs=1500 * k, n_triples=500 * k)
        g.fam_range_multi(cb, n=300 * k, scripts=True)
        g.fam_range_big(cb, n_pairs=500 * k)
        g.fam_body(cb, n=1500 * k, extra=1)
        g.fam_wide(cb, n=300 * k, single=True)
    elif prop == "C03":
        g.fam_range_small(cb, n_pairs=3000 * k, n_triples=1500 * k)
        g.fam_range_multi(cb, n=1500 * k)
        g.fam_range_big(cb, n_pairs=1500 * k)
        g.fam_range_ignored(cb)
        g.fam_wide(cb, n=300 * k)
        g.fam_lex_range(cb, n=5 if not T else 6)
    elif prop == "C04":
        g.fam_cond(cb, n=8000 * k, with_range=True, future=True)
        g.fam_lex_tags(cb, n=4 if not T else 5)
    elif prop == "C05":
        g.fam_ifrange(cb, reps=1 if not T else 3)
        g.fam_range_multi(cb, n=300 * k, with_ifr=True)
    elif prop == "C06":
        g.fam_body(cb, n=1200 * k, extra=1)
        g.fam_range_multi(cb, n=2500 * k, with_ifr=True, scripts=True)
        g.fam_wide(cb, n=1500 * k)
    elif prop == "C07":
        g.fam_body(cb, n=6000 * k, extra=2)
    elif prop == "C12":
        g.fam_conv(cb)
        g.fam_body(cb, n=3000 * k, extra=2)
        g.fam_range_multi(cb, n=500 * k, scripts=True)
        g.fam_cond(cb, n=300 * k, long_lists=False)
        g.fam_env(cb, n=300 * k)
        g.fam_range_big(cb, n_pairs=100 * k)
    elif prop == "C13":
        g.fam_env(cb, n=12000 * k)
        g.fam_range_big(cb, n_pairs=1000 * k, methods=("GET", "HEAD", "POST"))
        g.fam_range_ignored(cb)
        g.fam_lex_range(cb, n=4 if not T else 5)
        g.fam_lex_tags(cb, n=4)
        g.fam_deep(cb)
        g.fam_ifrange(cb)
    elif prop == "C14":
        g.fam_clock(cb, pairs=2 if not T else 6)
        g.fam_echo(cb)
        g.fam_meta(cb)
        g.fam_cond(cb, n=1500 * k, future=True, with_range=True)
    elif prop == "C15":
        g.fam_range_small(cb, n_pairs=600 * k, n_triples=200 * k, pair=True, methods=("GET", "HEAD"))
        g.fam_range_multi(cb, n=600 * k, pair=True, with_ifr=True, methods=("GET", "HEAD"))
        g.fam_cond(cb, n=2000 * k, pair=True, with_range=True, long_lists=False)
        g.fam_ifrange(cb, pair=True)
        g.fam_meta(cb, pair=True)
        g.fam_range_big(cb, n_pairs=200 * k, pair=True)
        g.fam_wide(cb, n=200 * k, pair=True)
    elif prop == "C20":
        g.fam_conv(cb)
        g.fam_body(cb, n=6000 * k, extra=4)
        g.fam_range_multi(cb, n=200 * k, scripts=True, extra=4)
        g.fam_cond(cb, n=200 * k, long_lists=False, extra=4)
        g.fam_env(cb, n=300 * k, extra=4)
        g.fam_huge_multipart(cb)
    # every check also runs a cross-section of all families
    g.fam_mix(cb, n=2500 * (2 if T else 1), pair=(prop == "C15"), extra=4 if prop == "C20" else 1)
    if prop in ("C01", "C03", "C06", "C13"):
        g.fam_overflow(cb, n=300 * k)
    if prop in ("C01", "C02", "C06", "C12", "C15", "C14"):
        g.fam_range_file(cb, n=150 * k, pair=(prop == "C15"))
    return cb.cases


def serve_nontrivial(prop, c):
    a = c["abs"]
    has = lambda k: a[k]["k"] != "none"
    faulty = any(s.get("tail") in ("end", "fail", "extra") or any(i[0] == "y" for i in s.get("items", []))
                 for s in c.get("scripts", []))
    if prop in ("C03", "C02"):
        return has("range")
    if prop == "C04":
        return has("im") or has("inm") or has("ims") or has("ius")
    if prop == "C05":
        return has("ifr") and has("range")
    if prop == "C06":
        return a["range"]["k"] == "set" and len(a["range"]["specs"]) > 1
    if prop in ("C07",):
        return faulty
    if prop == "C20":
        return c.get("extra", 0) >= 1
    if prop == "C13":
        return c["cls"].startswith("env") or c["cls"] in ("range_big", "range_ignored", "lex_range", "lex_tags", "deep", "ifrange")
    if prop == "C14":
        return c["cls"] in ("echo", "meta") or a != {}
    if prop == "C15":
        return bool(c.get("pair"))
    return True


SERVE_MC_MODES = {
    "C01": ["body", "range"], "C02": ["body", "range"], "C03": ["range", "big"], "C04": ["cond"],
    "C05": ["ifrange"], "C06": ["body", "range"], "C07": ["body"], "C12": ["body"], "C13": ["env", "big"],
    "C14": ["cond", "ifrange"], "C15": ["range", "cond", "ifrange"], "C20": ["body"],
}

LEVEL_NOTES = {}

PLANS = {}
for _p in ALL_SERVE:
    PLANS[_p] = {"engines": [{"engine": "serve", "trace_module": "ServeTrace",
                              "cases": (lambda prop: (lambda tier, seed: serve_cases(prop, tier, seed)))(_p),
                              "constants": {"PartEstimate": "80", "Strict": "TRUE"},
                              "nontrivial": (lambda prop: (lambda c: serve_nontrivial(prop, c)))(_p)}],
                 "mc": (lambda prop: (lambda tier: [(m, serve_mc(m, tier)) for m in SERVE_MC_MODES[prop]] +
                                      ([("range3", serve_mc("range3", tier))]
                                       if tier == "thorough" and "range" in SERVE_MC_MODES[prop] and prop in ("C03", "C02") else []) +
                                      ([("big1", serve_mc("big1", tier))]
                                       if tier == "thorough" and "big" in SERVE_MC_MODES[prop] else [])))(_p),
                 "witness": SERVE_WITNESS}


# ------------------------------------------------------------------ runner

def case_key(c):
    d = {k: c.get(k) for k in ("method", "abs", "scripts", "dscript", "echo", "pair", "ops", "cfg", "prog", "sched", "conv", "len", "seg", "pre_sleep", "file")
         if k in c}
    e = c.get("ent")
    if e:
        d["ent"] = {k: e.get(k) for k in ("len", "etag", "mt")}
        d["nh"] = len(e.get("hdrs", []))
    if "abs" not in c:
        d = {k: v for k, v in c.items() if k != "id"}
    return hashlib.sha1(json.dumps(d, sort_keys=True).encode()).hexdigest()


def case_signature(prop, c):
    """Stable human-readable identification of a failing case, for known_findings matching."""
    parts = [prop, c.get("cls", ""), c.get("method", "")]
    for h in c.get("hdrs", []):
        v = h[1] if isinstance(h[1], str) else "hex:" + h[1].get("hex", "")
        if len(v) > 300:
            v = "%s...(%d bytes)...%s" % (v[:60], len(v), v[-30:])
        parts.append("%s: %s" % (h[0], v))
    if "ent" in c:
        parts.append("L=%d" % servegen.unlimbs(c["ent"]["len"]))
        parts.append("etag=%s" % c["ent"]["etag"].get("s"))
        if c["ent"].get("mt", {}).get("k") == "t":
            parts.append("mtime=%s.%09d" % (c["ent"]["mt"].get("sr", c["ent"]["mt"]["s"]), c["ent"]["mt"]["ns"]))
    if isinstance(c.get("hdr"), str) and len(c["hdr"]) > 300:
        c = dict(c, hdr="%s...(%d bytes)...%s" % (c["hdr"][:60], len(c["hdr"]), c["hdr"][-30:]))
    for k in ("hdr", "cap", "ae", "level", "prog", "scripts", "sched", "rseed", "rand_cdrop", "echo", "path", "sig", "prev",
              "kind", "size", "a", "b", "mt_s", "mt_ns", "trunc", "steps", "target", "ranges", "polls"):
        if k in c:
            parts.append("%s=%s" % (k, json.dumps(c[k], separators=(",", ":"))))
    return " | ".join(parts)


def run_mc(prop, tier, name, spec, d):
    module, consts, invs, must_cover = spec[:4]
    opts = spec[4] if len(spec) > 4 else {}
    consts = dict(consts)
    if module != "NegMC":
        consts["Enforce"] = vlib.tla_set([prop])
    cfg = "SPECIFICATION %s\nCONSTANTS\n" % opts.get("spec", "Spec") + "\n".join("  %s = %s" % kv for kv in consts.items()) + \
          "\nINVARIANTS " + " ".join(invs) + \
          ("\nPROPERTY " + " ".join(opts["properties"]) if opts.get("properties") else "") + \
          "\nCHECK_DEADLOCK %s\n" % ("TRUE" if opts.get("deadlock") else "FALSE")
    t = time.time()
    rc, out = vlib.run_tlc(d, module, cfg, workers=max(4, vlib.NCPU // 2), timeout=3000 if tier == "thorough" else 600,
                           xmx="12g", extra_args=["-coverage", "1"])
    st = vlib.parse_tlc_stats(out)
    st["name"] = name
    st["wall_s"] = round(time.time() - t, 1)
    st["constants"] = {k: v for k, v in consts.items() if k != "Enforce"}
    st["coverage"] = vlib.parse_coverage(out)
    if not st["ok"]:
        with open(os.path.join(d, "mc_%s.out" % name), "w") as f:
            f.write(out)
        raise vlib.ToolError("exhaustive model check %s/%s did not pass: %s (a violation here is a defect of the "
                             "model, not of http-serve; output in %s/mc_%s.out)" % (module, name, st["error"], d, name))
    dead = [k for k in must_cover if st["coverage"].get(k, 0) == 0]
    if dead:
        raise vlib.ToolError("vacuous exhaustive run %s: actions never taken: %s" % (name, dead))
    return st


def run_witnesses(prop, name, spec, witnesses, d):
    """Each witness invariant must be VIOLATED (the situation it denies is reachable)."""
    module, consts, invs, must_cover = spec[:4]
    consts = dict(consts)
    if module != "NegMC":
        consts["Enforce"] = vlib.tla_set([prop])
    res = {}
    for w in witnesses:
        cfg = "SPECIFICATION Spec\nCONSTANTS\n" + "\n".join("  %s = %s" % kv for kv in consts.items()) + \
              "\nINVARIANTS " + w + "\nCHECK_DEADLOCK FALSE\n"
        wd = os.path.join(d, "w_" + w)
        os.makedirs(wd, exist_ok=True)
        vlib.copy_specs(wd)
        rc, out = vlib.run_tlc(wd, module, cfg, workers=4, timeout=900, xmx="6g")
        reached = ("Invariant %s is violated" % w) in out
        res[w] = reached
        if not reached:
            raise vlib.ToolError("vacuity: witness %s not reachable in %s" % (w, name))
    return res


def load_cases_by_id(result_dir):
    out = {}
    for sd in sorted(os.listdir(result_dir)):
        p = os.path.join(result_dir, sd, "cases.ndjson")
        if os.path.exists(p):
            for c in vlib.read_ndjson(p):
                out[c["id"]] = c
    return out


def unhooked_sync_sites():
    """Lock / wake sites in chunker.rs that are not immediately preceded by a yield point (the
    Probe's own two lock sites excluded).  Interleavings are explored at hooked sites only."""
    try:
        lines = open("/repo/src/chunker.rs").read().splitlines()
    except OSError:
        return -1
    n = 0
    in_probe = False
    for i, l in enumerate(lines):
        if l.startswith("impl<E> Probe<E>"):
            in_probe = True
        elif l.startswith("}") and in_probe:
            in_probe = False
        if in_probe or l.strip().startswith("//"):
            continue
        if ".lock()" in l or ".wake()" in l or ".wake_by_ref()" in l:
            ctx = "\n".join(lines[max(0, i - 6):i])
            if "yield_point(" not in ctx:
                n += 1
    return n


def run_check(prop, tier, seed):
    t00 = time.time()
    plan = PLANS[prop]
    vlib.log("== %s tier=%s seed=%d" % (prop, tier, seed))
    bt = vlib.build_harness()
    vlib.log("harness rebuilt from /repo in %.1fs" % bt)
    d = vlib.workdir("check_%s" % prop)
    mcd = os.path.join(d, "mc")
    os.makedirs(mcd)
    vlib.copy_specs(mcd)

    mc_specs = plan["mc"](tier)
    mc_results, trace_results = [], []
    unbounded = []

    def do_mc():
        out = []
        for name, spec in mc_specs:
            sd = os.path.join(mcd, name)
            os.makedirs(sd, exist_ok=True)
            vlib.copy_specs(sd)
            st = run_mc(prop, tier, name, spec, sd)
            ws = plan.get("witness", {}).get(name, [])
            if ws:
                # reachability in the small (quick) configuration implies it in the larger one
                quick_specs = dict(plan["mc"]("quick"))
                st["witnesses"] = run_witnesses(prop, name, quick_specs.get(name, spec), ws, sd)
            out.append(st)
            vlib.log("  exhaustive %-8s %8d distinct states, %8d generated, %5.1fs %s" %
                     (name, st["distinct"], st["generated"], st["wall_s"], st.get("witnesses", "")))
        for module, inv in plan.get("apalache", []):
            ok, secs, tail = vlib.run_apalache(os.path.join(mcd, "apalache_" + module), module, inv)
            if not ok:
                raise vlib.ToolError("Apalache did not prove %s!%s (a failure here is a defect of the model):\n%s"
                                     % (module, inv, tail))
            unbounded.append({"tool": "apalache-mc 0.58", "module": module, "invariant": inv, "outcome": "NoError",
                              "wall_s": round(secs, 1), "scope": "all integers 0..2^64-1 (SMT, unbounded)"})
            vlib.log("  unbounded  %s!%s proved by Apalache for all u64 values, %.1fs" % (module, inv, secs))
        for module in plan.get("tlaps", []):
            ok, nobl, secs, tail = vlib.run_tlaps(os.path.join(mcd, "tlaps_" + module), module)
            if not ok:
                raise vlib.ToolError("tlapm did not prove all obligations of %s (a failure here is a defect of the "
                                     "specification):\n%s" % (module, tail))
            unbounded.append({"tool": "tlapm 1.6.0-pre", "module": module, "obligations": nobl, "discharged": nobl,
                              "wall_s": round(secs, 1), "scope": "all integers (deductive proof)"})
            vlib.log("  proved     %s: %d obligations discharged by TLAPS, %.1fs" % (module, nobl, secs))
        return out

    def do_traces():
        out = []
        for e in plan["engines"]:
            cases = e["cases"](tier, seed)
            consts = dict(e["constants"])
            consts["Enforce"] = vlib.tla_set([prop])
            r = vlib.validate_cases("check_%s/tr_%s" % (prop, e["engine"]), e["engine"], e["trace_module"], cases,
                                    consts, nshards=max(4, vlib.NCPU // 2))
            r["engine"] = e["engine"]
            r["ncases"] = len(cases)
            keys = {}
            for c in cases:
                if e["nontrivial"](c):
                    keys[case_key(c)] = 1
            r["distinct_nontrivial"] = len(keys)
            r["cases_by_id"] = {c["id"]: c for c in cases}
            vlib.log("  traces %-7s %6d cases, %7d events validated by TLC (%d shards; harness %.1fs, TLC %.1fs), "
                     "%d violating events" % (e["engine"], len(cases), r["events"], r["shards"], r["harness_s"],
                                              r["tlc_s"], len(r["viol"])))
            out.append(r)
        return out

    with concurrent.futures.ThreadPoolExecutor(max_workers=2) as ex:
        f1 = ex.submit(do_mc)
        f2 = ex.submit(do_traces)
        mc_results = f1.result()
        trace_results = f2.result()

    # ---- violations
    known = vlib.load_known()
    known_entries = [k for k in known.get("known", []) if k.get("property") == prop]
    new_viol = []
    known_hit = {}
    os.makedirs(os.path.join(vlib.WORK, "replay"), exist_ok=True)
    for r in trace_results:
        by_case = {}
        for v in r["viol"]:
            by_case.setdefault(v[0], []).append(v)
        for cid, vs in sorted(by_case.items()):
            c = r["cases_by_id"].get(cid, {"id": cid})
            sig = case_signature(prop, c)
            hit = None
            for k in known_entries:
                if re.search(k["match"], sig):
                    hit = k
                    break
            if hit:
                known_hit.setdefault(hit["id"], hit)
                continue
            new_viol.append((r["engine"], c, vs, sig))
    for k in known_hit.values():
        print("KNOWN-FINDING: property=%s %s" % (prop, k["what"]), flush=True)
    shown = 0
    for engine, c, vs, sig in new_viol:
        if shown >= 5:
            break
        shown += 1
        path = os.path.join(vlib.WORK, "replay", "%s-%d.json" % (prop, shown))
        with open(path, "w") as f:
            json.dump({"property": prop, "engine": engine, "seed": seed, "case": c, "signature": sig,
                       "failed": [{"line": v[1], "what": v[3], "build": v[-1]} for v in vs]}, f, indent=1)
        print("VIOLATION property=%s replay=%s" % (prop, path), flush=True)
        print("  case: %s" % sig[:400], flush=True)
        print("  failed at: %s" % ", ".join("%s (event %d, %s build)" % (v[3], v[1], v[-1]) for v in vs[:4]), flush=True)

    # ---- evidence
    samples = []
    for r in trace_results:
        ids = sorted(r["cases_by_id"])
        for i in (ids[:1] + ids[len(ids) // 2: len(ids) // 2 + 1] + ids[-1:]):
            c = dict(r["cases_by_id"][i])
            samples.append({"engine": r["engine"], "case": c})
    cov = {
        "states": sum(m["distinct"] for m in mc_results) + sum(r["states"] for r in trace_results),
        "transitions": sum(m["generated"] for m in mc_results) + sum(r["generated"] for r in trace_results),
        "traces_validated_against_impl": sum(r["ncases"] for r in trace_results),
        "samples": samples[:6],
        "evaluations": sum(r["ncases"] for r in trace_results),
        "distinct_nontrivial": sum(r["distinct_nontrivial"] for r in trace_results),
        "rule": "cases are enumerated/seeded abstract views (see tools/*gen.py) rendered to concrete inputs; distinct = "
                "distinct abstract view (request classes, entity shape, scripts/schedule); non-trivial = the "
                "property's antecedent is exercised (tools/plans.py *_nontrivial)",
        "exhaustive": False,
        "exhaustive_model_runs": mc_results,
        "model_states_exhaustive": sum(m["distinct"] for m in mc_results),
        "trace_events_validated": sum(r["events"] for r in trace_results),
        "trace_validation_states": sum(r["states"] for r in trace_results),
        "drift_notes": sum(len(r["drift"]) for r in trace_results),
        "violating_cases": len(new_viol),
        "known_findings_hit": sorted(known_hit),
        "enforce": [prop],
        "unbounded_checks": unbounded,
    }
    if any(r["engine"] == "stream" for r in trace_results):
        cov["unhooked_sync_sites"] = unhooked_sync_sites()
        if cov["unhooked_sync_sites"] > 0:
            vlib.log("  note: %d lock/wake site(s) in src/chunker.rs without a yield point: interleavings at those "
                     "sites are not explored" % cov["unhooked_sync_sites"])
        cov.update(stream_plan.meta.get(prop, {}))
    wall = time.time() - t00
    vlib.write_evidence(prop, tier, seed, cov, wall, len(new_viol),
                        ["TLC 1.8.0 and the CommunityModules Json/IOUtils modules are correct",
                         "the harness (vh) records observations faithfully; it contains no expectations",
                         "exhaustive results hold inside the stated constants only (small-scope hypothesis beyond)",
                         "trace validation covers the explored cases only"])
    vlib.log("== %s: %d new violating cases, %d known; %.1fs" % (prop, len(new_viol), len(known_hit), wall))
    return 1 if new_viol else 0


def replay(prop, path):
    with open(path) as f:
        rp = json.load(f)
    vlib.build_harness()
    plan = PLANS[prop]
    e = [x for x in plan["engines"] if x["engine"] == rp["engine"]][0]
    consts = dict(e["constants"])
    consts["Enforce"] = vlib.tla_set([prop])
    c = dict(rp["case"])
    r = vlib.validate_cases("replay_%s" % prop, e["engine"], e["trace_module"], [c], consts, nshards=1)
    for vname, _ in vlib.VARIANTS:
        print("--- build variant %s" % vname)
        tr = vlib.read_ndjson(os.path.join(r["dir"], "s00", "trace_%s.ndjson" % vname))
        vs = [v for v in r["viol"] if v[-1] == vname]
        for i, ev in enumerate(tr):
            mark = "  <-- " + ", ".join(v[3] for v in vs if v[1] == i + 1) if any(v[1] == i + 1 for v in vs) else ""
            print("%3d %s%s" % (i + 1, json.dumps(ev)[:300], mark))
    if r["viol"]:
        print("VIOLATION property=%s replay=%s" % (prop, path))
        return 1
    print("replay: property %s holds on this case in the current tree" % prop)
    return 0


# ====================================================================== streaming engine
import streamgen   # noqa: E402
import subprocess  # noqa: E402

STREAM_PROPS = ["C08", "C09", "C10", "C11", "C17"]


def stream_mc_spec(prop, tier, cdrop):
    T = tier == "thorough"
    c = {"Caps": "{1, 2, 3}" if T else "{1, 2}", "WSizes": "{0, 1, 2, 4}" if T else "{0, 1, 3}",
         "MaxOps": 4 if T else 3, "MaxSpur": 2 if T else 1, "MaxProbes": 1, "MaxExtra": 2 if T else 1,
         "AllowCDrop": "TRUE" if cdrop else "FALSE", "AllowAbort": "FALSE" if prop == "C08" and not T else "TRUE",
         "AllowWait": "TRUE"}
    return ("StreamMC", c, ["PropInv", "NoLostWakeup", "Consistent"], ["StreamMC.P_Step", "StreamMC.C_Poll",
                                                                      "StreamMC.C_Probe"] + (["StreamMC.C_Drop"] if cdrop else []),
            {"deadlock": True})   # a parked consumer nobody will wake is a deadlock of the model


def stream_live_spec(prop, tier):
    """Liveness under weak fairness: once the producer is gone the consumer sees the terminal event."""
    T = tier == "thorough"
    c = {"Caps": "{1, 2}", "WSizes": "{0, 1, 3}", "MaxOps": 4 if T else 3, "MaxSpur": 2 if T else 1, "MaxProbes": 0,
         "MaxExtra": 1, "AllowCDrop": "FALSE", "AllowAbort": "TRUE", "AllowWait": "TRUE"}
    return ("StreamMC", c, ["PropInv", "NoLostWakeup"], ["StreamMC.P_Step", "StreamMC.C_Poll"],
            {"spec": "FairSpec", "properties": ["EventuallyTerminal"], "deadlock": True})


STREAM_WITNESS = {"nodrop": ["W_Parked", "W_CleanEnd", "W_Spurious"], "cdrop": ["W_WriteFails", "W_ErrEnd"],
                  "gzflush": ["W_PlainFlushComplete", "W_OnePass", "W_NoShortWrite"]}


def gzflush_mc(tier):
    """The buffering layers between BodyWriter (gzip) and the chunk writer: flush protocol (GzFlush.tla)."""
    if tier == "quick":
        c = {"Cap": 4, "LookMax": 3, "InMax": 6, "MaxAcc": 12, "MaxOps": 5, "WriteSizes": "{0, 1, 2, 5, 9}"}
    else:
        c = {"Cap": 5, "LookMax": 4, "InMax": 8, "MaxAcc": 24, "MaxOps": 8, "WriteSizes": "{0, 1, 2, 3, 5, 9, 14}"}
    return ("GzFlushMC", c, ["FlushInv", "FinishInv", "ConservedInv", "LemmaInv", "PassesInv", "Bounded"],
            ["GzFlushMC.Write", "GzFlushMC.Flush", "GzFlushMC.DropW"])


def gen_scheds(prop, tier, seed, d):
    """Spec -> implementation: TLC emits complete behaviours of the bounded streaming model
    (every behaviour of tiny programs; -simulate walks of larger ones)."""
    os.makedirs(d, exist_ok=True)
    vlib.copy_specs(d)
    T = tier == "thorough"
    abort = "FALSE" if prop == "C08" else "TRUE"
    cdrop = "TRUE" if prop in ("C11", "C20") else "FALSE"
    out = []

    def run(name, consts, extra_args, timeout):
        cfg = "SPECIFICATION GSpec\nCONSTANTS\n" + "\n".join("  %s = %s" % kv for kv in consts.items()) + \
              "\nINVARIANTS Emit\nCHECK_DEADLOCK FALSE\n"
        sd = os.path.join(d, name)
        os.makedirs(sd, exist_ok=True)
        vlib.copy_specs(sd)
        rc, o = vlib.run_tlc(sd, "StreamGen", cfg, workers=4, timeout=timeout, xmx="6g", extra_args=extra_args)
        n = 0
        for line in o.splitlines():
            if line.startswith('<<"SCHED", "'):
                js = line[len('<<"SCHED", "'):-3].replace('\\"', '"')
                try:
                    out.append(json.loads(js))
                    n += 1
                except ValueError:
                    pass
        if n == 0:
            raise vlib.ToolError("StreamGen/%s emitted no behaviours:\n%s" % (name, o[-1500:]))
        return n

    base = {"Enforce": vlib.tla_set([prop]), "Caps": "{1, 2}", "WSizes": "{1, 3}", "MaxOps": 2 if T else 1,
            "MaxSpur": 1, "MaxProbes": 0, "MaxExtra": 1, "AllowCDrop": cdrop, "AllowAbort": abort, "AllowWait": "FALSE"}
    n1 = run("exh", base, [], 600)
    sim = dict(base)
    sim.update({"Caps": "{1, 2, 3}", "WSizes": "{0, 1, 2, 4, 9}", "MaxOps": 5, "MaxSpur": 2, "MaxProbes": 2, "MaxExtra": 2,
                "AllowWait": "TRUE"})
    n2 = run("sim", sim, ["-simulate", "num=%d" % (6000 if T else 800), "-depth", "60", "-seed", str(seed)], 900)
    rng = __import__("random").Random(seed)
    # every behaviour is model-checked by StreamMC anyway; of the emitted ones a seeded sample is replayed in the
    # real code (all of them if they are few): 5 000 in the quick tier, 60 000 in the thorough one
    cap = 60000 if T else 5000
    if len(out) > cap + 1000:
        head = out[:n1]
        rng.shuffle(head)
        out = head[:cap] + out[n1:]
    seen = set()
    uniq = []
    for s in out:
        key = json.dumps(s, sort_keys=True)
        if key not in seen:
            seen.add(key)
            uniq.append(s)
    return uniq, {"exhaustive_behaviours": n1, "simulated_behaviours": n2, "replayed": len(uniq)}


def stream_plan(prop):
    def cases(tier, seed):
        sched_cases = []
        meta = {}
        if prop in ("C08", "C10", "C11", "C12", "C20"):
            sc, meta = gen_scheds(prop, tier, seed, os.path.join(vlib.WORK, "check_%s" % prop, "gen"))
            sched_cases = [{"cap": s["cap"], "prog": s["prog"], "sched": s["sched"], "extra": 1} for s in sc]
        cs = streamgen.stream_cases(prop, tier, seed, sched_cases)
        stream_plan.meta[prop] = meta
        return cs
    return {"engine": "stream", "trace_module": "StreamTrace", "cases": cases,
            "constants": {"Strict": "TRUE"}, "nontrivial": lambda c: streamgen.stream_nontrivial(prop, c)}


stream_plan.meta = {}


def stream_mc(prop):
    def f(tier):
        if prop == "C09":
            return [("gzflush", gzflush_mc(tier))]
        if prop == "C17":
            return []
        out = [("nodrop", stream_mc_spec(prop, tier, False))]
        if prop == "C10":
            out.append(("live", stream_live_spec(prop, tier)))
        if prop in ("C11", "C12", "C20"):
            out.append(("cdrop", stream_mc_spec(prop, tier, True)))
        return out
    return f


for _p in ["C08", "C09", "C10", "C11"]:
    PLANS[_p] = {"engines": [stream_plan(_p)], "mc": stream_mc(_p), "witness": STREAM_WITNESS}
# C17 adds the negotiation model; C12 / C20 / C15 combine the serve and the stream engine
PLANS["C03"]["apalache"] = [("RangesInt", "Inv")]
PLANS["C02"]["apalache"] = [("RangesInt", "Inv")]
PLANS["C17"] = {"engines": [stream_plan("C17")], "mc": lambda tier: [("neg", neg_mc(tier))], "witness": {"neg": ["W_True", "W_Both"]}}
for _p in ["C12", "C20"]:
    PLANS[_p]["engines"].append(stream_plan(_p))
    PLANS[_p]["mc"] = (lambda prop, old: (lambda tier: old(tier) + stream_mc(prop)(tier)))(_p, PLANS[_p]["mc"])
    PLANS[_p]["witness"] = dict(SERVE_WITNESS, **STREAM_WITNESS)
PLANS["C15"]["engines"].append(stream_plan("C15"))


def neg_mc(tier):
    c = {"Codings": '{"gzip", "identity", "*", "br"}', "Quals": "{0, 1, 500, 1000}" if tier == "quick" else "{0, 1, 500, 999, 1000}",
         "MaxLen": 3 if tier == "quick" else 4}
    return ("NegMC", c, ["ImplInside", "Deterministic", "NeverUnlisted", "NeverZero", "Monotone", "Antitone"], [])


PLANS["C16"] = {"engines": [{"engine": "neg", "trace_module": "NegTrace",
                             "cases": lambda tier, seed: streamgen.neg_cases(tier, seed),
                             "constants": {"Strict": "TRUE"},
                             "nontrivial": lambda c: c["abs"]["k"] == "list" and len(c["abs"]["l"]) > 0}],
                "mc": lambda tier: [("neg", neg_mc(tier))], "witness": {"neg": ["W_True", "W_Both"]}}


# ====================================================================== file / dir engines
import filegen  # noqa: E402


def readfile_mc(tier):
    c = {"MaxSize": 9 if tier == "quick" else 12, "ReadSize": 4, "MaxTrunc": 2 if tier == "quick" else 3}
    return ("ReadFileMC", c, ["PropInv", "Bounded"], ["ReadFileMC.Trunc", "ReadFileMC.Poll"], {"deadlock": True})


PLANS["C18"] = {"engines": [{"engine": "file", "trace_module": "FileTrace",
                             "cases": lambda tier, seed: filegen.file_cases(tier, seed),
                             "constants": {"Strict": "TRUE", "ReadSizeReal": "65536"},
                             "nontrivial": lambda c: c["kind"] != "stream" or c.get("b", 0) > c.get("a", 0)}],
                "mc": lambda tier: [("readfile", readfile_mc(tier))],
                "witness": {"readfile": ["W_Err", "W_MultiChunk"]}}


def fsdir_mc(tier):
    c = {"SegSet": '{"a", "sub", "..", ".", "...", "..a", "a..", "", "secret", "b", "dev"}' if tier == "thorough"
         else '{"a", "sub", "..", ".", "...", "..a", "a..", "", "secret", "dev"}', "MaxSegs": 4 if tier == "thorough" else 3}
    return ("FsDirMC", c, ["Contained", "Sufficient", "Rejects", "Exact"], [])


PLANS["C19"] = {"engines": [{"engine": "dir", "trace_module": "DirTrace",
                             "cases": lambda tier, seed: filegen.dir_cases(tier, seed),
                             "constants": {"Strict": "TRUE"},
                             "nontrivial": lambda c: True}],
                "mc": lambda tier: [("fsdir", fsdir_mc(tier))],
                "witness": {"fsdir": ["W_Dots", "W_Gz", "W_Escape"]}}


# C14 also over real files (every file served through ChunkedReadFile has a sub-second mtime)
PLANS["C14"]["engines"].append({"engine": "file", "trace_module": "FileTrace",
                                "cases": lambda tier, seed: filegen.file_echo_cases(tier, seed),
                                "constants": {"Strict": "TRUE", "ReadSizeReal": "65536"},
                                "nontrivial": lambda c: len(c.get("echo", [])) > 0})

# C02 also over a real file whose reads come back short (content compared with an independent reading)
PLANS["C02"]["engines"].append({"engine": "file", "trace_module": "FileTrace",
                                "cases": lambda tier, seed: filegen.odd_cases(tier, seed),
                                "constants": {"Strict": "TRUE", "ReadSizeReal": "65536"},
                                "nontrivial": lambda c: True})

PLANS["C16"]["tlaps"] = ["AcceptEncodingProofs"]
