"""Cross-check of spec/U64.tla (limb arithmetic used by every serve specification) against
Python's big integers: generates a module of ASSUMEs over landmark and random u64 values and has
TLC evaluate them."""
import os
import random

import vlib

B = 10**9


def limbs(v):
    return "<<%d, %d, %d>>" % (v // (B * B), (v // B) % B, v % B)


def run(seed=1, n=1500):
    rng = random.Random(seed)
    marks = [0, 1, 9, 10, 99, 100, 250, 251, 252, B - 1, B, B + 1, 2 * B - 1, B * B - 1, B * B, B * B + 1, 2**32 - 1, 2**32,
             2**63 - 1, 2**63, 2**64 - 2, 2**64 - 1]
    vals = list(marks) + [rng.randrange(0, 2**64) for _ in range(60)] + [10**k for k in range(20)] + [10**k - 1 for k in range(1, 20)]
    lines = ["---- MODULE U64Cross ----", "EXTENDS U64, TLC"]
    cnt = 0
    for _ in range(n):
        a, b = rng.choice(vals), rng.choice(vals)
        lines.append("ASSUME Add(%s, %s) = %s" % (limbs(a), limbs(b), limbs(a + b)))
        hi, lo = max(a, b), min(a, b)
        lines.append("ASSUME Sub(%s, %s) = %s" % (limbs(hi), limbs(lo), limbs(hi - lo)))
        lines.append("ASSUME Lt(%s, %s) = %s" % (limbs(a), limbs(b), "TRUE" if a < b else "FALSE"))
        lines.append("ASSUME Le(%s, %s) = %s" % (limbs(a), limbs(b), "TRUE" if a <= b else "FALSE"))
        lines.append("ASSUME Min(%s, %s) = %s" % (limbs(a), limbs(b), limbs(min(a, b))))
        lines.append("ASSUME Width(%s) = %d" % (limbs(a), len(str(a))))
        lines.append("ASSUME Mod251(%s) = %d" % (limbs(a), a % 251))
        lines.append("ASSUME IsU64(%s) = %s" % (limbs(a + b), "TRUE" if a + b < 2**64 else "FALSE"))
        lines.append("ASSUME Size(%s, %s) = %s" % (limbs(lo), limbs(hi), limbs(hi - lo + 1)))
        cnt += 9
    lines += ["VARIABLE x", "Init == x = 0", "Next == x' = x", "===="]
    d = vlib.workdir("u64cross")
    vlib.copy_specs(d)
    with open(os.path.join(d, "U64Cross.tla"), "w") as f:
        f.write("\n".join(lines))
    rc, out = vlib.run_tlc(d, "U64Cross", "INIT Init\nNEXT Next\n", workers=1, timeout=300)
    ok = "No error has been found" in out
    if not ok:
        raise vlib.ToolError("U64.tla disagrees with big-integer arithmetic:\n" + out[-1500:])
    return cnt


if __name__ == "__main__":
    print("U64 cross-check: %d assumptions hold" % run())
