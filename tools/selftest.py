"""Self-test of the binding between specification and implementation traces (DESIGN 3.4):
a good trace must be accepted; the same trace with one logged field corrupted, or one event
removed, must be rejected.  Does not modify /repo."""
import copy
import json
import os

import vlib
import servegen
import streamgen
import plans


def validate_trace(d, name, module, events, consts):
    sd = os.path.join(d, name)
    os.makedirs(sd, exist_ok=True)
    vlib.copy_specs(sd)
    tpath = os.path.join(sd, "trace.ndjson")
    opath = os.path.join(sd, "result.ndjson")
    vlib.write_ndjson(tpath, events)
    cfg = "SPECIFICATION Spec\nCONSTANTS\n" + "\n".join("  %s = %s" % kv for kv in consts.items()) + \
          "\nPOSTCONDITION Accepted\nCHECK_DEADLOCK FALSE\n"
    rc, out = vlib.run_tlc(sd, module, cfg, workers=1, timeout=300, env_extra={"TRACE": tpath, "OUT": opath}, deque=True)
    if rc != 0 or not os.path.exists(opath):
        raise vlib.ToolError("selftest: TLC failed on %s: %s" % (name, out[-800:]))
    return vlib.read_ndjson(opath)[0]


def run(fast=False):
    vlib.build_harness()
    d = vlib.workdir("selftest")
    ok = True

    def expect(name, res, want_viol, props=None):
        nonlocal ok
        got = sorted(set(v[2] for v in res["viol"]))
        good = (len(got) > 0) == want_viol and (props is None or any(p in got for p in props))
        vlib.log("  %-44s %s (violations: %s)" % (name, "ok" if good else "FAILED", got))
        ok = ok and good

    # ---- serve engine
    cb = servegen.CaseBuilder(7)
    servegen.fam_range_multi(cb, n=12, scripts=True)
    servegen.fam_range_small(cb, n_pairs=10, n_triples=0, lens=[5])
    cases = [c for c in cb.cases if c["abs"]["range"]["k"] == "set"][:30]
    for i, c in enumerate(cases):
        c["id"] = i + 1
    cp = os.path.join(d, "serve_cases.ndjson")
    tp = os.path.join(d, "serve_trace.ndjson")
    vlib.write_ndjson(cp, cases)
    vlib.run_harness("serve", cp, tp)
    tr = vlib.read_ndjson(tp)
    consts = {"Enforce": vlib.tla_set(plans.ALL_SERVE), "PartEstimate": "80", "Strict": "TRUE"}
    expect("serve: recorded trace accepted", validate_trace(d, "s_good", "ServeTrace", tr, consts), False)
    # (i) corrupt a Content-Length limb
    t2 = copy.deepcopy(tr)
    for e in t2:
        if e["ev"] == "head" and not e.get("panic") and e["h"]["cl"]["k"] == "num" and e["h"]["status"] in (200, 206):
            e["h"]["cl"]["v"][2] += 1
            break
    expect("serve: Content-Length limb corrupted -> rejected", validate_trace(d, "s_cl", "ServeTrace", t2, consts), True, ["C01", "C06"])
    # (ii) corrupt a data residue in a lexed body
    t3 = copy.deepcopy(tr)
    done = False
    for e in t3:
        if e["ev"] == "body" and not done:
            for tok in e["tokens"]:
                if tok["t"] == "D":
                    tok["r"] = (tok["r"] + 1) % 251
                    done = True
                    break
    expect("serve: body byte residue corrupted -> rejected", validate_trace(d, "s_res", "ServeTrace", t3, consts), True, ["C02", "C06"])
    # (iii) remove one data poll event
    t4 = copy.deepcopy(tr)
    for i, e in enumerate(t4):
        if e["ev"] == "poll" and e["res"] == "data" and e["n"] > 0:
            del t4[i]
            break
    expect("serve: one poll event removed -> rejected", validate_trace(d, "s_del", "ServeTrace", t4, consts), True, ["C01", "C12"])

    # ---- stream engine
    sc = [{"id": 1, "cap": 2, "prog": [["write", 3], ["flush", 0], ["write", 1], ["drop", 0]],
           "sched": [["C", "poll", 1], ["P"], ["P"], ["C", "poll", 1]], "extra": 1, "abs": {"k": "absent"}},
          {"id": 2, "cap": 3, "prog": [["write", 7], ["drop", 0]], "rand_steps": 40, "rseed": 3, "extra": 1, "abs": {"k": "absent"}}]
    cp = os.path.join(d, "stream_cases.ndjson")
    tp = os.path.join(d, "stream_trace.ndjson")
    vlib.write_ndjson(cp, sc)
    vlib.run_harness("stream", cp, tp)
    tr = vlib.read_ndjson(tp)
    consts = {"Enforce": vlib.tla_set(["C08", "C10", "C11", "C12", "C20"]), "Strict": "TRUE"}
    expect("stream: recorded trace accepted", validate_trace(d, "t_good", "StreamTrace", tr, consts), False)
    t2 = copy.deepcopy(tr)
    hit = False
    for e in t2:
        if e["ev"] == "step" and e.get("wake", 0) != 0:
            e["wake"] = 0               # "remove the wake hook"
            hit = True
    r = validate_trace(d, "t_wake", "StreamTrace", t2, consts)
    if hit:
        expect("stream: wake events removed -> rejected", r, True, ["C10"])
    t3 = copy.deepcopy(tr)
    for e in t3:
        if e["ev"] == "step" and e["t"] == "C" and e["r"]["res"] == "data":
            e["r"]["fs"] = (e["r"]["fs"] + 1) % 251
            break
    expect("stream: frame content corrupted -> rejected", validate_trace(d, "t_fs", "StreamTrace", t3, consts), True, ["C08"])
    t4 = copy.deepcopy(tr)
    for i, e in enumerate(t4):
        if e["ev"] == "step" and e["t"] == "C" and e["r"]["res"] == "data":
            del t4[i]
            break
    expect("stream: one frame removed -> rejected", validate_trace(d, "t_del", "StreamTrace", t4, consts), True, ["C08", "C10"])
    import u64cross
    n = u64cross.run(seed=11, n=400 if fast else 1500)
    vlib.log("  %-44s ok (%d assumptions evaluated by TLC)" % ("U64.tla agrees with big-integer arithmetic", n))
    vlib.log("selftest %s" % ("passed" if ok else "FAILED"))
    return 0 if ok else 2
