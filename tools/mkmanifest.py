#!/usr/bin/env python3
"""Writes /verif/MANIFEST.json from the plans (one entry per property)."""
import json
import os
import sys
sys.path.insert(0, os.path.dirname(os.path.abspath(__file__)))
import plans

VERIF = os.path.dirname(os.path.dirname(os.path.abspath(__file__)))
props = {json.loads(l)["id"]: json.loads(l) for l in open(os.path.join(VERIF, "properties.jsonl"))}

TEXT = {
 "C01": ("Serve.tla/ServeMC.tla: TLC explores the Impl model of serve + ExactLenStream/MultipartStream exhaustively on bounded case sets (all range sets over L<=5, all entity-stream scripts of <=2-3 items per call incl. faults) with C01's invariants (Content-Length present on 200/206, exact hint, delivered <= announced, delivered = announced at a clean end); every recorded execution of the real code (enumerated + seeded cases incl. 2^32..2^64-1 landmarks, chunked and faulty streams, 4xx/304 bodies) is validated by TLC against the same predicates with Enforce={C01}; a body that never terminates within the poll bound is a violation.", "4 C01"),
 "C02": ("Body bytes are lexed into position-coded tokens; TLC checks on the model (BodyInv) and on every trace that the delivered token stream is a prefix of / equal to exactly the bytes the Content-Range names, for every chunking incl. landmark offsets.", "4 C02"),
 "C03": ("Ranges part of Serve.tla transcribes RFC 7233 resolution from the property text on 3-limb u64 arithmetic; ServeMC modes range (every set of <=2-3 specs over L<=5, positions 0..L+2) and big (landmark lengths x positions up to 2^64) check Impl against it; traces of requests carrying only Range (+ a matching If-Range) are validated with Enforce={C03}, incl. near-miss headers that must be ignored. Beyond the bounds: RangesInt.tla (the same resolution over unbounded integers) is checked symbolically by Apalache, and U64.tla is cross-checked against big-integer arithmetic (13 500 ASSUMEs).", "4 C03"),
 "C04": ("Validators part of Serve.tla: PreconditionFailed/NotModified as the two sentences of the property; ServeMC mode cond checks the Impl model on the categorical product; traces over ETag x mtime(sub-second) x If-Match x If-None-Match x dates x method validated with Enforce={C04}.", "4 C04"),
 "C05": ("IfRangeVerdict in Serve.tla (yes / no / free for a date equal to Last-Modified); ServeMC mode ifrange; traces over near-miss tags, dates, garbage x single/multi/unsatisfiable ranges, both directions (never 206 unless honoured; still honoured when matching).", "4 C05"),
 "C06": ("Expected multipart token sequence (part header with recomputed decimal widths, data run, trailer) and Content-Length = sum of token lengths, checked on the model (PartEstimate=1) and on traces with real part headers, 2..8 ranges, entity lengths to 2^64-1, 0..3 entity headers, with/without If-Range, chunked part streams, multi-segment Buf data types; boundary length taken from the response (any RFC 2046 boundary).", "4 C06"),
 "C07": ("Entity streams are scripted (yield/pending/end/fail/overrun) and logged; ServeMC mode body explores every script of <=2-3 items per call for 200 / single 206 / 2-3 part multipart; predicates: no clean end after a short/failed/overrunning stream, nothing beyond the announced length, no clean end when the stream has nothing more to give (look-ahead field of the script); Stream::size_hint implemented or not; file-backed entities truncated between polls; streams that keep failing after their first error.", "4 C07"),
 "C08": ("Stream.tla models BodyWriter(raw)+chunker at lock/wake granularity; StreamMC explores every producer program <=3-4 ops x chunk sizes x all interleavings with the consumer loop; StreamGen emits TLC behaviours that are replayed in the real code through the hook scheduler; every step (Probe snapshot, results, frames) is validated by StreamTrace with Enforce={C08} and compared with the Impl model (Strict). A free-running stress family (real threads, real lock contention, logically decided facts only) complements the baton scheduler; every trace check runs on a debug-assertions build and an optimised build.", "4 C08"),
 "C09": ("The gzip encoder is outside TLA+'s useful reach; an independent inflate/CRC-32 decoder in the harness projects frames to facts (decoded length, common prefix with the accepted bytes, member completeness, CRC, ISIZE, trailing bytes) and StreamTrace requires: after each successful flush everything accepted is decodable from the available frames, after drop exactly one valid member decoding to the accepted bytes. Transport/ordering around the encoder is the C08 model. The flush protocol between BodyWriter, flate2's buffer and the compressor (where defect F10 lived) is modelled in GzFlush.tla and checked exhaustively by TLC (FlushInv, FinishInv, ConservedInv, LemmaInv; witness: flate2's flush alone loses bytes); traces include vectored writes and writes of 40-400 KB of incompressible data.", "4 C09, 8.7"),
 "C10": ("StreamMC: all interleavings at lock-acquisition and wake granularity of producer programs (write/flush/wait/abort/drop) with a consumer that parks on the waker it passed, re-polls spuriously and presents waker 1 or 2; lost wake-ups are deadlocks of the model and the NoLostWakeup invariant; the real code runs the TLC-emitted and seeded schedules under the baton scheduler and every step is validated (a parked consumer nobody will wake is a `stuck` event); scheduling points also after each wake() call (eager wakers) and inside Waker::clone; a wake-up delivered while the mutex is held is a violation; liveness EventuallyTerminal under FairSpec; free-running stress cases.", "4 C10"),
 "C11": ("Abort and body-drop positions are part of the producer program / consumer schedule in StreamMC (AllowCDrop) and in the replayed/seeded schedules; predicates: next terminal after abort is an error, delivered is a prefix, no end-of-stream claim while the error is pending, writes/flushes fail after abort / after a first error / after the body is gone, queue released; bodies and writers dropped normally and during panic unwinding; a consumer stuck after an abort is a C11 violation too.", "4 C11"),
 "C12": ("Hints and the end-of-stream flag are sampled before every poll (serve bodies) or as separate scheduled operations (streaming bodies) and kept as history; predicates evaluated at every step on both models and on all traces of the serve and stream engines.", "4 C12"),
 "C13": ("ServeMC mode env: any of the six headers may be garbage (refined nondeterministically to a parse error or any well-formed value): status stays in the envelope, 405 + Allow for other methods; traces: arbitrary bytes, near-misses, boundary numbers, repeated lines, all methods, entity lengths to 2^64-1, modification times before 1970 and beyond the year 9999; panics are recorded as events.", "4 C13"),
 "C14": ("Head clauses over the projected response head (Accept-Ranges, ETag byte-identical, Date within the call bracket, Last-Modified = floor(mtime) or Date, entity headers on 200/206 only) and two-request histories (second request copies validators verbatim from the first response) for all 32 subsets x ETag x mtime classes.", "4 C14"),
 "C15": ("Every case is issued as GET and HEAD against fresh entities; the pair predicate (same status, same header lines except Date/Last-Modified, empty HEAD body with exact hint 0, no get_range call) is checked on the model (PairInv) and on traces; streaming_body: HEAD => no writer, same headers.", "4 C15"),
 "C16": ("AcceptEncoding.tla transcribes the property (not the code); NegMC checks sanity lemmas and that the code's duplicate rule lies inside the envelope; every rendered list (all 1-2 element lists, seeded 3-4 element lists, 4 whitespace renderings) is decided by TLC. Six lemmas about the decision function (AcceptEncodingProofs.tla) are proved by TLAPS for lists of any length.", "4 C16"),
 "C17": ("StreamTrace build event: Vary always, Content-Encoding: gzip iff AcceptEncoding!Allowed(abs) and level > 0, writer iff not HEAD; final event: body coding (valid gzip member decoding to the written bytes vs verbatim bytes) matches the header; Request and Parts, GET/HEAD/POST, levels 0..10, sequences of builder calls, repeated Accept-Encoding lines, case of header values.", "4 C17"),
 "C18": ("ReadFile.tla: Impl (unfold with read size) and predicates (exact file bytes, non-empty chunks, never a short clean end, error only when truncated, bounded polls, metadata, etag injective over versions); ReadFileMC exhaustive over sizes 0..9 x ranges x truncations; real 64 KiB traces over boundary sizes/ranges/truncation points, also through serve(), concurrent streams over one file, two versions of a file (history), non-regular files, sparse files of 2-12 GiB (offsets / lengths around 2^31..2^33), a kernel-generated file whose reads come back short.", "4 C18"),
 "C19": ("FsDir.tla: POSIX resolution over the harness's tree (with '..' representable), validation, .gz substitution; FsDirMC exhaustive over paths <=3-4 segments: validation sufficient and not excessive; traces against a real directory tree compare get() with openat facts recorded by the harness.", "4 C19"),
 "C20": ("After the first terminal event every further poll must be end/error: MaxExtra polls in ServeMC body mode and StreamMC, 1-4 extra polls in every trace (inside catch_unwind).", "4 C20"),
}
NOTE = ("bounded model checking + sampled conformance, not proof: exhaustive only inside the stated constants; trusted: TLC 1.8.0 + "
        "CommunityModules Json/IOUtils, the harness projections (lexer, head projection, Probe snapshot, gzip decoder), rustc/cargo; "
        "interleavings are explored at the hooked lock/wake sites of chunker.rs (plus free-running stress for the unhooked ones; evidence lists unhooked_sync_sites)")
engines = [
 {"name": "serve", "path": "harness/src/serve_eng.rs + spec/Serve.tla, ServeMC.tla, ServeTrace.tla", "serves_properties": plans.ALL_SERVE,
  "kind_free_text": "scripted entities -> http_serve::serve -> projected head, lexed body, per-poll hints; TLC validates traces and model-checks the Impl model"},
 {"name": "stream", "path": "harness/src/stream_eng.rs + spec/Stream.tla, StreamMC.tla, StreamGen.tla, StreamTrace.tla", "serves_properties": ["C08", "C09", "C10", "C11", "C12", "C15", "C17", "C20"],
  "kind_free_text": "baton scheduler over verif-hooks yield points; TLC-emitted and seeded schedules; Probe snapshot per step"},
 {"name": "neg", "path": "harness/src/neg_eng.rs + spec/AcceptEncoding.tla, NegMC.tla, NegTrace.tla", "serves_properties": ["C16", "C17", "C19"], "kind_free_text": "should_gzip on rendered lists"},
 {"name": "file", "path": "harness/src/file_eng.rs + spec/ReadFile.tla, ReadFileMC.tla, FileTrace.tla", "serves_properties": ["C18"], "kind_free_text": "real temp files, truncation between polls"},
 {"name": "dir", "path": "harness/src/dir_eng.rs + spec/FsDir.tla, FsDirMC.tla, DirTrace.tla", "serves_properties": ["C19"], "kind_free_text": "real directory tree, openat facts"},
]
checks = []
for pid in sorted(props):
    text, ref = TEXT[pid]
    checks.append({
        "property_id": pid,
        "quick_cmd": "./check %s --tier quick" % pid,
        "thorough_cmd": "./check %s --tier thorough" % pid,
        "evidence_file": "/verif/evidence/%s.json" % pid,
        "replay_cmd_template": "./check %s --replay {path}" % pid,
        "engine": "+".join(e["engine"] for e in plans.PLANS[pid]["engines"]),
        "level_claimed": {"category": "model_checking", "text": text, "design_ref": "DESIGN.md section " + ref},
        "level_note": NOTE,
        "technique": "explicit TLA+ specification: TLC exhaustive model checking of the bounded model + TLC trace validation of real executions (spec->impl replay of TLC-generated cases/schedules, impl->spec trace checking)",
    })
m = {"version": 1,
     "setup_cmd": "cd /verif && ./check --build-only && ./check --selftest --fast",
     "hooks": {"guard": "cargo feature verif-hooks",
               "enable": "the harness crate depends on http-serve (path /repo) with features [\"dir\", \"verif-hooks\"]; checks run `cargo build --offline` in /verif/harness",
               "baseline_off_cmd": "cd /repo && cargo test --workspace --no-fail-fast --offline",
               "source_commits": ["5b370dd", "ce42520", "37199fc"], "add_only": True},
     "engines": engines, "checks": checks,
     "notes": "All 20 properties are decided with TLA+ specifications under /verif/spec (TLC). Fix commits in /repo: b326285 a3342c0 c3279bc 0f2024b 94a5652 87f4e6c 1320894 7e6abb3 5f58985 ec0fe7e cb8c62b a298ee1 2053d2f 60a54bb c4cb77c (see known_findings.json; DESIGN.md 8.3 describes defects F1-F15). tools/mutation_run.py applies /verif/mutants/*.patch and /verif/seeded/*/patch.diff to /repo, runs checks and restores the tree; DESIGN.md 8.5/8.6 record which check catches which of the hand-written mutants and the 165 changes seeded by independent sub-agents, and which behaviour-preserving changes (mutants/L_*.patch, legit/a1..a8) stay silent.",
     "not_applicable": []}
json.dump(m, open(os.path.join(VERIF, "MANIFEST.json"), "w"), indent=1)
print("wrote MANIFEST with", len(checks), "checks")
