----------------------------- MODULE FileTrace -----------------------------
(* Trace validation for the file engine (`vh file`).                        *)
EXTENDS ReadFile, Json, IOUtils
CONSTANTS Strict, ReadSizeReal
Rec == ndJsonDeserialize(IOEnv.TRACE)
OutFile == IOEnv.OUT
VARIABLES l, st
vars == <<l, st>>
Init0 == [case |-> 0, kind |-> "", fs |-> [term |-> "none"], hasF |-> FALSE, imp |-> [s |-> 0, e |-> 0], impOK |-> FALSE,
          vs |-> <<>>, via |-> FALSE, truncated |-> FALSE, meta |-> <<>>,
          viol |-> {}, drift |-> {}, cases |-> 0, polls |-> 0]
Bad(s, ln, ids, what) == {<<s.case, ln, id, what>> : id \in ids}

\* Files beyond TLC's 32-bit integers (sparse files of several GiB): positions are taken relative to the
\* start of the range and anything further than Window bytes away is "far".  The harness polls such a
\* stream for a few chunks only (and stops after 2^27 bytes), so within the observed prefix every
\* comparison of ReadFile!PollFailures has the same value as on the true numbers.
U == INSTANCE U64
Window == 500000000
Rel(x, a) == IF U!Le(x, U!Add(a, U!N(Window))) THEN U!ToNat(U!Sub(x, a)) ELSE Window

\* close a case: history checks
Close(s, ln) ==
  IF s.kind \in {"history", "fresh"} /\ Len(s.vs) > 0
  THEN [s EXCEPT !.viol = s.viol \cup Bad(s, ln, HistoryFailures(s.vs), "etag vs version history")]
  ELSE s

Step(s0, e, ln) ==
  CASE e.ev = "fcase" ->
         LET s == Close(s0, ln) IN
         [Init0 EXCEPT !.case = e.case, !.kind = e.kind, !.viol = s.viol, !.drift = s.drift,
                       !.cases = s.cases + 1, !.polls = s.polls]
    [] e.ev = "fnonreg" ->
         [s0 EXCEPT !.viol = s0.viol \cup Bad(s0, ln, IF ~e.refused \/ e.panic THEN Enforce \cap {"C18"} ELSE {},
                                              "non-regular file accepted")]
    [] e.ev = "fver" -> [s0 EXCEPT !.vs = Append(s0.vs, [ver |-> e.ver, etag |-> e.etag]),
                                   !.viol = s0.viol \cup Bad(s0, ln,
                                       IF e.etag.k = "tag" /\ (e.len # e.flen \/ e.lm_s # e.mt_s \/ e.lm_ns # e.mt_ns)
                                       THEN Enforce \cap {"C18"} ELSE {}, "metadata")]
    [] e.ev = "fopen" ->
         IF ~e.ok THEN [s0 EXCEPT !.viol = s0.viol \cup Bad(s0, ln, Enforce \cap {"C18"}, "open failed")]
         ELSE IF e.sparse
         THEN IF ~(U!Le(e.aL, e.bL) /\ U!Le(e.bL, e.sizeL)) THEN s0      \* (not a range within the file: nothing promised)
              ELSE [s0 EXCEPT !.fs = InitFileZ(Rel(e.sizeL, e.aL), 0, Rel(e.bL, e.aL), TRUE), !.hasF = TRUE, !.via = FALSE,
                              !.imp = [s |-> 0, e |-> Rel(e.bL, e.aL)], !.impOK = Strict,
                              !.viol = s0.viol \cup Bad(s0, ln, OpenFailures(e), "metadata / etag syntax")]
         ELSE [s0 EXCEPT !.fs = InitFile(e.size, e.a, e.b), !.hasF = TRUE, !.via = e.via,
                         !.meta = <<e.len, e.lm_s, e.lm_ns, e.etag>>,
                         !.imp = [s |-> e.a, e |-> e.b], !.impOK = Strict /\ ~e.via,
                         !.viol = s0.viol \cup Bad(s0, ln, OpenFailures(e), "metadata / etag syntax")]
    [] e.ev = "fhead" ->
         \* served through serve(): an in-range request on an untruncated file is a 206 of it
         LET h == e.h
             ok == /\ h.status = 206 /\ h.cr.k = "range"
                   /\ h.cr.a = <<0, 0, s0.fs.a>> /\ h.cr.b = <<0, 0, s0.fs.b - 1>> /\ h.cr.l = <<0, 0, s0.fs.size>>
         IN [s0 EXCEPT !.viol = s0.viol \cup Bad(s0, ln, IF s0.hasF /\ s0.fs.b > s0.fs.a /\ ~ok THEN Enforce \cap {"C18"} ELSE {},
                                                 "serve head")]
    [] e.ev = "ftrunc" -> IF s0.hasF THEN [s0 EXCEPT !.fs = Truncate(s0.fs, e.len), !.truncated = TRUE] ELSE s0
    [] e.ev = "fpoll" ->
         IF ~s0.hasF THEN s0
         ELSE LET p == [res |-> e.res, n |-> e.n, runs |-> e.runs, z |-> e.z]
                  before == s0.fs.bad
                  fs2 == ObservePoll(s0.fs, p)
                  r == ImplRead(s0.imp, s0.fs.cur, ReadSizeReal)
                  same == r.res = e.res /\ r.n = e.n
              IN [s0 EXCEPT !.fs = fs2, !.polls = s0.polls + 1,
                            !.imp = r.st, !.impOK = s0.impOK /\ same,
                            !.drift = IF s0.impOK /\ ~same THEN s0.drift \cup {<<s0.case, ln, "read size / result">>} ELSE s0.drift,
                            !.viol = s0.viol \cup Bad(s0, ln, fs2.bad \ before, "poll")]
    [] e.ev = "fmeta" ->
         \* "its length and modification time are those of the file at construction": asked again of the
         \* same instance after the file was truncated / polled, the answers are the same
         [s0 EXCEPT !.viol = s0.viol \cup Bad(s0, ln, IF s0.hasF /\ s0.meta # <<>> /\ s0.meta # <<e.len, e.lm_s, e.lm_ns, e.etag>>
                                                       THEN Enforce \cap {"C18"} ELSE {}, "metadata of one instance changed")]
    [] e.ev = "fend" -> [s0 EXCEPT !.hasF = FALSE]
    [] e.ev = "fconc" ->
         \* streams over clones of one entity, polled concurrently on several threads (logical facts
         \* only: every chunk was compared with the file content at its offset)
         [s0 EXCEPT !.viol = s0.viol \cup Bad(s0, ln, IF e.bad_chunks > 0 \/ e.short_or_failed > 0 THEN Enforce \cap {"C18"} ELSE {},
                                              "concurrent streams over one ChunkedReadFile deliver wrong bytes")]
    [] e.ev = "fcmp" ->
         \* a regular file whose reads come back short (kernel-generated): every chunk and every
         \* single-range response was compared with an independent reading of the file
         [s0 EXCEPT !.viol = s0.viol
             \cup Bad(s0, ln, IF e.bad_chunks > 0 \/ e.short_or_failed > 0 \/ e.empty_chunks > 0 THEN Enforce \cap {"C18", "C02"} ELSE {},
                       "stream over a short-reading file delivers wrong bytes")
             \cup Bad(s0, ln, IF e.serve_bad > 0 THEN Enforce \cap {"C18", "C02"} ELSE {},
                       "206 over a short-reading file: wrong Content-Range or body")]
    [] e.ev = "fecho" ->
         \* C14 over a real file (strong ETag, sub-second mtime in the past): served Last-Modified is
         \* the mtime truncated to the second, and echoing validators gives the cache-friendly answer
         LET Has(x) == \E i \in DOMAIN e.S : e.S[i] = x
             due304 == Has("inm") \/ Has("ims")
             bad == \/ e.status1 # 200
                    \/ e.lm1 # e.mt_s
                    \/ e.etag.k # "tag"
                    \/ (due304 /\ e.status2 # 304)
                    \/ ((Has("im") \/ Has("ius")) /\ e.status2 = 412)
                    \/ (Has("ir") /\ ~due304 /\ e.size > 0 /\ e.status2 # 206)
         IN [s0 EXCEPT !.viol = s0.viol \cup Bad(s0, ln, IF bad THEN Enforce \cap {"C14"} ELSE {}, "echo over a real file")]
    [] OTHER -> s0

Init == l = 1 /\ st = Init0
RECURSIVE SetToSeqLocal(_)
SetToSeqLocal(S) == IF S = {} THEN <<>> ELSE LET x == CHOOSE y \in S : TRUE IN <<x>> \o SetToSeqLocal(S \ {x})
Next ==
  \/ /\ l <= Len(Rec) /\ st' = Step(st, Rec[l], l) /\ l' = l + 1
  \/ /\ l = Len(Rec) + 1
     /\ LET s == Close(st, l) IN
        ndJsonSerialize(OutFile, <<[events |-> Len(Rec), cases |-> s.cases, polls |-> s.polls,
                                    viol |-> SetToSeqLocal(s.viol), drift |-> SetToSeqLocal(s.drift)]>>)
     /\ l' = l + 1 /\ st' = st
Spec == Init /\ [][Next]_vars
Accepted == TLCGet("stats").diameter = Len(Rec) + 2
=============================================================================
