------------------------------ MODULE DirTrace ------------------------------
(* Trace validation for the directory engine (`vh dir`).                     *)
EXTENDS FsDir, Json, IOUtils
CONSTANT Strict
Rec == ndJsonDeserialize(IOEnv.TRACE)
OutFile == IOEnv.OUT
VARIABLES l, st
vars == <<l, st>>
Init == l = 1 /\ st = [viol |-> {}, drift |-> {}, cases |-> 0]

OsCore(f) == IF f.k = "node" THEN [k |-> "node", name |-> f.name] ELSE [k |-> "err", kind |-> f.kind]
Step(s, e, ln) ==
  IF e.ev # "dget" \/ e.res.k = "skipped" THEN s
  ELSE LET bad == "C19" \in Enforce /\ ~C19_OK(e)
           \* Strict: the model's resolution against the operating system's, and the Impl algorithm
           \* (paths padded to PATH_MAX with thousands of "." segments are judged by C19_OK against the
           \* operating system's answers only: the model knows no length limit)
           long == Len(e.abs.segs) > 64
           m == Resolve("base", e.abs.segs)
           osOK == long \/ e.abs.nul \/ (Len(e.abs.segs) > 1 /\ e.abs.segs[1] = "") \/ OsCore(e.plain) = m
           r == ImplGet(e.abs, e.ae, e.auto)
           implOK == IF long THEN TRUE ELSE IF r.k = "err" THEN e.res.k = "err" /\ e.res.kind = r.kind
                     ELSE e.res.k = "node" /\ e.res.name = r.name /\ (e.res.enc = "gzip") = (r.k = "gznode")
       IN [s EXCEPT !.cases = s.cases + 1,
                    !.viol = IF bad THEN s.viol \cup {<<e.case, ln, "C19", "FsDir::get">>} ELSE s.viol,
                    !.drift = s.drift \cup (IF Strict /\ ~osOK THEN {<<e.case, ln, "model Resolve vs OS">>} ELSE {})
                                      \cup (IF Strict /\ ~implOK THEN {<<e.case, ln, "Impl get">>} ELSE {})]
RECURSIVE SetToSeqLocal(_)
SetToSeqLocal(S) == IF S = {} THEN <<>> ELSE LET x == CHOOSE y \in S : TRUE IN <<x>> \o SetToSeqLocal(S \ {x})
Next ==
  \/ /\ l <= Len(Rec) /\ st' = Step(st, Rec[l], l) /\ l' = l + 1
  \/ /\ l = Len(Rec) + 1
     /\ ndJsonSerialize(OutFile, <<[events |-> Len(Rec), cases |-> st.cases,
                                    viol |-> SetToSeqLocal(st.viol), drift |-> SetToSeqLocal(st.drift)]>>)
     /\ l' = l + 1 /\ st' = st
Spec == Init /\ [][Next]_vars
Accepted == TLCGet("stats").diameter = Len(Rec) + 2
=============================================================================
