------------------------------ MODULE ServeMC ------------------------------
(***************************************************************************)
(* Exhaustive model checking of the Impl model of Serve against the        *)
(* property predicates, on bounded case sets:                               *)
(*   Mode = "range"   every range set over small entities (MC_Range)        *)
(*   Mode = "big"     landmark lengths x landmark positions (MC_RangeBig)   *)
(*   Mode = "cond"    categorical product of the conditional headers        *)
(*   Mode = "ifrange" If-Range x Range x ETag                               *)
(*   Mode = "env"     any header may be garbage (refined nondeterministic-  *)
(*                    ally to "corrupt" or to any well-formed value)        *)
(*   Mode = "body"    response shapes x every entity-stream script          *)
(* Each case is an initial state; the behaviour is                          *)
(*   init -> head (ImplHead) -> poll* (ImplPoll against a nondeterministic  *)
(*   entity) -> done.  Invariants are the property predicates of Serve.     *)
(***************************************************************************)
EXTENDS Serve

CONSTANTS Mode, MaxL, MaxSpecs, MaxItems, MaxExtra, MaxTags

VARIABLES ms
vars == <<ms>>

E == "e"        \* the entity's opaque tag
Z == "z"        \* another opaque tag

\* ---------------------------------------------------------------- case sets
Tag(w, op) == [w |-> w, op |-> op]
TagPool == {Tag(FALSE, E), Tag(TRUE, E), Tag(FALSE, Z), Tag(TRUE, Z)}
TagLists == {None, [k |-> "star"]}
            \cup {[k |-> "list", tags |-> <<t>>] : t \in TagPool}
            \cup (IF MaxTags >= 2 THEN {[k |-> "list", tags |-> <<t, u>>] : t \in TagPool, u \in TagPool} ELSE {})
Dates == {None} \cup {[k |-> "date", s |-> d] : d \in {9, 10, 11}}
ETags == {None, [k |-> "tag", w |-> FALSE, op |-> E], [k |-> "tag", w |-> TRUE, op |-> E]}
MTimes == {None, [k |-> "t", s |-> 10, ns |-> 0, fut |-> FALSE]}
Nows == {5, 10, 20}

Ent(L, etag, mt, nh) ==
  [len |-> L, etag |-> etag, etagv |-> IF etag.k = "tag" THEN [k |-> "txt", s |-> etag.op] ELSE None,
   mt |-> mt, nh |-> nh, hl |-> nh * 10, hdrs |-> [i \in 1..nh |-> <<"x", i>>]]

NoAbs == [range |-> None, ifr |-> None, im |-> None, inm |-> None, ims |-> None, ius |-> None]

SpecsFor(P) == {[k |-> "fl", a |-> a, b |-> b, n |-> Zero] : a \in P, b \in P}
               \cup {[k |-> "f", a |-> a, b |-> Zero, n |-> Zero] : a \in P}
               \cup {[k |-> "s", a |-> Zero, b |-> Zero, n |-> n] : n \in P}

HasInv(specs) == \E i \in DOMAIN specs : specs[i].k = "fl" /\ Lt(specs[i].b, specs[i].a)
HasBig(specs) == \E i \in DOMAIN specs : ~IsU64(specs[i].a) \/ ~IsU64(specs[i].b) \/ ~IsU64(specs[i].n)
RangeOf(specs) == [k |-> "set", specs |-> specs, free |-> HasInv(specs) \/ HasBig(specs)]

SeqsUpTo(S, n) == UNION {[1..m -> S] : m \in 1..n}

SmallPos(L) == {N(i) : i \in 0..(L + 2)}
RangeCases(u) ==
  {[mclass |-> m, ent |-> Ent(N(L), None, None, 0), abs |-> [NoAbs EXCEPT !.range = RangeOf(ss)]] :
      m \in {"get"}, L \in 0..MaxL, ss \in SeqsUpTo(SpecsFor(SmallPos(MaxL)), MaxSpecs)}

TwoTo64 == <<18, 446744073, 709551616>>
\* (pairs of specs only over two lengths: initial-state generation is single-threaded)
BigLens == IF MaxSpecs >= 2 THEN {N(10), MaxU64}
           ELSE {N(1), N(10), <<0, 4, 294967296>>, <<9, 223372036, 854775808>>, MaxU64}
BigPos(L) == {Zero, One, Pred(L), L, Succ(L), <<0, 4, 294967296>>, <<9, 223372036, 854775808>>,
              Pred(MaxU64), MaxU64, TwoTo64}
BigCases(u) ==
  {[mclass |-> "get", ent |-> Ent(L, None, None, nh), abs |-> [NoAbs EXCEPT !.range = RangeOf(ss)]] :
      nh \in {0, 20}, L \in BigLens, ss \in SeqsUpTo(SpecsFor(UNION {BigPos(LL) : LL \in BigLens}), MaxSpecs)}

CondCases(u) ==
  {[mclass |-> m, ent |-> Ent(N(3), et, mt, 1),
    abs |-> [NoAbs EXCEPT !.im = im, !.inm = inm, !.ims = ims, !.ius = ius]] :
      m \in {"get", "head"}, et \in ETags, mt \in MTimes, im \in TagLists, inm \in TagLists,
      ims \in Dates, ius \in Dates}

IfRanges == {None, [k |-> "tag", w |-> FALSE, op |-> E], [k |-> "tag", w |-> TRUE, op |-> E],
             [k |-> "tag", w |-> FALSE, op |-> Z], [k |-> "date", s |-> 9], [k |-> "date", s |-> 10],
             [k |-> "date", s |-> 11], [k |-> "garbage"]}
fl(a, b) == [k |-> "fl", a |-> N(a), b |-> N(b), n |-> Zero]
IfRangeRanges == {None, RangeOf(<<fl(1, 2)>>), RangeOf(<<fl(0, 0), fl(2, 2)>>), RangeOf(<<fl(9, 9)>>),
                  RangeOf(<<fl(9, 9), fl(1, 1)>>), RangeOf(<<fl(0, 5)>>)}
IfRangeCases(u) ==
  {[mclass |-> m, ent |-> Ent(N(6), et, mt, 1), abs |-> [NoAbs EXCEPT !.ifr = ir, !.range = r]] :
      m \in {"get", "head"}, et \in ETags, mt \in MTimes, ir \in IfRanges, r \in IfRangeRanges}

G == [k |-> "garbage"]
EnvTagLists == IF MaxTags >= 2
               THEN {None, G, [k |-> "star"], [k |-> "list", tags |-> <<Tag(FALSE, E)>>],
                     [k |-> "list", tags |-> <<Tag(FALSE, Z)>>]}
               ELSE {None, G, [k |-> "list", tags |-> <<Tag(FALSE, Z)>>]}
EnvDates == IF MaxTags >= 2 THEN {None, G, [k |-> "date", s |-> 9], [k |-> "date", s |-> 11]}
            ELSE {None, G, [k |-> "date", s |-> 9]}
EnvCases(u) ==
  {[mclass |-> m, ent |-> Ent(N(L), et, mt, 1),
    abs |-> [range |-> r, ifr |-> ir, im |-> im, inm |-> inm, ims |-> ims, ius |-> ius]] :
      m \in {"get", "head", "other"}, L \in (IF MaxTags >= 2 THEN {0, 6} ELSE {6}), et \in {None, [k |-> "tag", w |-> FALSE, op |-> E]},
      mt \in MTimes, r \in {None, G, RangeOf(<<fl(1, 2)>>), RangeOf(<<fl(0, 0), fl(2, 2)>>)},
      ir \in {None, G, [k |-> "tag", w |-> FALSE, op |-> E]},
      im \in EnvTagLists, inm \in EnvTagLists, ims \in EnvDates, ius \in EnvDates}

BodyShapes == {None, RangeOf(<<fl(1, 2)>>), RangeOf(<<fl(0, 0), fl(2, 3)>>), RangeOf(<<fl(4, 4), fl(0, 1), fl(4, 4)>>)}
BodyCases(u) ==
  {[mclass |-> "get", ent |-> Ent(N(L), None, None, nh), abs |-> [NoAbs EXCEPT !.range = r]] :
      L \in {0, 1, 2}, r \in {None}, nh \in {0}}
  \cup
  {[mclass |-> "get", ent |-> Ent(N(12), None, None, nh), abs |-> [NoAbs EXCEPT !.range = r]] :
      r \in BodyShapes \ {None}, nh \in {0, 1}}

\* (the case sets take a dummy parameter so that TLC does not evaluate all of them eagerly)
Cases == CASE Mode = "range" -> RangeCases(0)
           [] Mode = "big" -> BigCases(0)
           [] Mode = "cond" -> CondCases(0)
           [] Mode = "ifrange" -> IfRangeCases(0)
           [] Mode = "env" -> EnvCases(0)
           [] Mode = "body" -> BodyCases(0)

\* ---------------------------------------------------------------- refinement of garbage
\* What the bytes of a garbage header may turn out to be for the code: a parse error
\* ("corrupt"), or accidentally any well-formed value.
RefineTags(a) == IF a.k = "garbage" THEN {[k |-> "corrupt"], [k |-> "list", tags |-> <<Tag(FALSE, Z)>>],
                                          [k |-> "list", tags |-> <<Tag(FALSE, E)>>], [k |-> "star"]}
                 ELSE {a}
RefineDate(a) == IF a.k = "garbage" THEN {[k |-> "corrupt"], [k |-> "date", s |-> 9], [k |-> "date", s |-> 11]}
                 ELSE {a}
RefineIfr(a) == IF a.k = "garbage" THEN {[k |-> "corrupt"]} ELSE {a}
RefineRange(a) == IF a.k = "garbage"
                  THEN {[k |-> "ignored"], RangeOf(<<fl(1, 2)>>), RangeOf(<<fl(7, 8)>>), RangeOf(<<fl(0, 0), fl(2, 2)>>)}
                  ELSE {a}
Refinements(abs) ==
  {[range |-> r, ifr |-> ir, im |-> im, inm |-> inm, ims |-> ims, ius |-> ius] :
     r \in RefineRange(abs.range), ir \in RefineIfr(abs.ifr), im \in RefineTags(abs.im),
     inm \in RefineTags(abs.inm), ims \in RefineDate(abs.ims), ius \in RefineDate(abs.ius)}

\* The code on "corrupt" values (serving.rs:27-66, etag.rs): a corrupt If-Match is a 400 when
\* the entity has an ETag and a failed precondition when it has none; a corrupt If-None-Match is
\* ignored when the entity has an ETag and counts as "no match" otherwise; a corrupt date is a 400
\* whenever it is consulted.  Returns "400", or the abs with corrupt parts replaced by what they
\* amount to.
BadRequest(c, ent) ==
  \/ c.im.k = "corrupt" /\ ent.etag.k = "tag"
  \/ LET imPass == c.im.k \in {"none", "star"} \/
                   (c.im.k = "list" /\ \E i \in DOMAIN c.im.tags : StrongEqT(c.im.tags[i], ent.etag))
     IN c.ius.k = "corrupt" /\ ent.mt.k = "t" /\ imPass /\ c.im.k = "none"
  \/ LET inmAbsent == c.inm.k = "none" \/ (c.inm.k = "corrupt" /\ ent.etag.k = "tag")
     IN c.ims.k = "corrupt" /\ ent.mt.k = "t" /\ inmAbsent
Normalize(c, ent) ==
  [c EXCEPT !.im = IF c.im.k = "corrupt" THEN [k |-> "list", tags |-> <<>>] ELSE c.im,
            !.inm = IF c.inm.k = "corrupt"
                    THEN (IF ent.etag.k = "tag" THEN None ELSE [k |-> "list", tags |-> <<>>]) ELSE c.inm,
            !.ims = IF c.ims.k = "corrupt" THEN None ELSE c.ims,
            !.ius = IF c.ius.k = "corrupt" THEN None ELSE c.ius,
            !.ifr = IF c.ifr.k = "corrupt" THEN [k |-> "date", s |-> 0] ELSE c.ifr]

Head400 == [status |-> 400, cl |-> None, cr |-> None, ct |-> None, ar |-> None, etag |-> None,
            date |-> None, lm |-> None, allow |-> None, eh |-> <<>>, body |-> [k |-> "once", n |-> 30]]

ImplHeadG(req, conc, now) ==
  IF req.mclass # "other" /\ BadRequest(conc, req.ent) THEN Head400
  ELSE ImplHead([req EXCEPT !.abs = Normalize(conc, req.ent)], now)

\* ---------------------------------------------------------------- the state machine
Init ==
  \E c \in Cases, now \in (IF Mode \in {"cond", "ifrange", "env"} THEN Nows ELSE {20}) :
     \E conc \in Refinements(c.abs) :
        ms = [ph |-> "init", req |-> c, conc |-> conc, now |-> now]

\* observed-head shape of an Impl head (the fields the predicates read)
AsObserved(ih) ==
  [status |-> ih.status, cl |-> ih.cl, cr |-> ih.cr,
   ct |-> IF ih.ct.k = "multipart" THEN [ih.ct EXCEPT !.boundary = "B"] @@ [blen |-> 1] ELSE ih.ct,
   ar |-> IF ih.ar.k = "val" THEN ih.ar @@ [lc |-> "bytes"] ELSE ih.ar, etag |-> ih.etag,
   date |-> ih.date, lm |-> ih.lm, allow |-> ih.allow, eh |-> ih.eh]

DoHead ==
  /\ ms.ph = "init"
  /\ LET ih == ImplHeadG(ms.req, ms.conc, ms.now)
         h == AsObserved(ih)
         isGet == ms.req.mclass # "head"
         ib0 == ImplBodyInit(ih.body)
         ib == IF ib0.k = "multi"
               THEN [ib0 EXCEPT !.l = ms.req.ent.len,
                                !.hl = IF ms.req.abs.ifr.k = "none" THEN ms.req.ent.hl ELSE 0]
               ELSE ib0
         calls0 == [i \in DOMAIN ImplInitialCalls(ih.body) |->
                       NewCall(ImplInitialCalls(ih.body)[i].a, ImplInitialCalls(ih.body)[i].b)]
     IN ms' = [ph |-> IF Mode = "body" THEN "poll" ELSE "done",
               req |-> ms.req, conc |-> ms.conc, now |-> ms.now, h |-> h, body |-> ih.body,
               isGet |-> isGet,
               bs |-> [InitBody(h, isGet) EXCEPT !.calls = calls0],
               ib |-> ib, toks |-> <<>>, pend |-> 0]

\* what the entity stream of call c may hand out next
EntityItems(c, pend) ==
  IF c.st # "live" THEN {[k |-> "done", n |-> 0]}
  ELSE IF c.items >= MaxItems THEN {[k |-> "end", n |-> 0], [k |-> "fail", n |-> 0]}
  ELSE {[k |-> "yield", n |-> n] : n \in 0..(IF Lt(c.y, Owed(c)) THEN ToNat(Sub(Owed(c), c.y)) + 1 ELSE 1)}
       \cup {[k |-> "end", n |-> 0], [k |-> "fail", n |-> 0]}
       \cup (IF pend < 1 THEN {[k |-> "pending", n |-> 0]} ELSE {})

AppendRun(toks, r, n) ==
  IF n = 0 THEN toks
  ELSE IF Len(toks) > 0 /\ toks[Len(toks)].t = "D" /\ (toks[Len(toks)].r + toks[Len(toks)].n) % 251 = r
  THEN [toks EXCEPT ![Len(toks)].n = @ + n]
  ELSE Append(toks, [t |-> "D", r |-> r, n |-> n])

HdrLenM(i) == PartHeaderLen(ms.ib.parts[i].a, ms.ib.parts[i].b, ms.ib.l, 1, ms.ib.hl)

DoPoll ==
  /\ ms.ph = "poll"
  /\ LET newCalls == ImplPollCalls(ms.ib)
         callsA == ms.bs.calls \o [i \in DOMAIN newCalls |-> NewCall(newCalls[i].a, newCalls[i].b)]
         pollsStream == ImplPollsStream(ms.ib)
         cidx == Len(callsA)
     IN \E it \in (IF pollsStream THEN EntityItems(callsA[cidx], ms.pend) ELSE {[k |-> "none", n |-> 0]}) :
          LET env == [i \in DOMAIN newCalls |-> [x |-> "getrange", call |-> Len(ms.bs.calls) + i,
                                                 a |-> newCalls[i].a, b |-> newCalls[i].b]]
                     \o (IF pollsStream THEN <<[x |-> "item", call |-> cidx, k |-> it.k, n |-> it.n]>> ELSE <<>>)
              hint == ImplHint(ms.ib)
              stp == ImplPoll(ms.ib, it, HdrLenM)
              p == [lo |-> hint.lo, up |-> hint.up, eos |-> ImplEos(ms.ib), res |-> stp.res, n |-> stp.n,
                    env |-> env, nexts |-> <<>>]
              bs2 == Observe(ms.bs, p, ms.isGet)
              \* token of the delivered frame
              fromStream == pollsStream /\ it.k = "yield" /\ stp.res = "data"
              pos == IF pollsStream THEN Add(callsA[cidx].a, callsA[cidx].y) ELSE Zero
              partIdx == (ms.ib.st \div 2) + 1
              toks2 ==
                IF stp.res # "data" THEN ms.toks
                ELSE IF fromStream THEN AppendRun(ms.toks, Mod251(pos), stp.n)
                ELSE IF ms.ib.k = "multi"
                THEN (IF stp.n = TrailerLen(1) /\ stp.ib.st = 2 * Len(ms.ib.parts) + 1
                      THEN Append(ms.toks, [t |-> "TR", len |-> stp.n])
                      ELSE LET j == (stp.ib.st - 1) \div 2 + 1 IN
                           Append(ms.toks, [t |-> "PH", a |-> ms.ib.parts[j].a, b |-> ms.ib.parts[j].b,
                                            l |-> ms.ib.l, len |-> stp.n,
                                            nh |-> IF ms.ib.hl > 0 THEN ms.req.ent.nh ELSE 0,
                                            hdrs |-> IF ms.ib.hl > 0 THEN ms.req.ent.hdrs ELSE <<>>]))
                ELSE Append(ms.toks, [t |-> "RAW", len |-> stp.n])
              finished == bs2.term # "none" /\ bs2.after >= MaxExtra
          IN ms' = [ms EXCEPT !.bs = bs2, !.ib = stp.ib, !.toks = toks2,
                              !.pend = IF it.k = "pending" THEN ms.pend + 1 ELSE 0,
                              !.ph = IF finished THEN "done" ELSE "poll"]

Next == DoHead \/ DoPoll

Spec == Init /\ [][Next]_vars

\* ---------------------------------------------------------------- invariants
HeadInv == (ms.ph # "init") => HeadFailures(ms.req, ms.h, ms.now, ms.now) = {}

PollInv == (ms.ph # "init") => ms.bs.bad = {}

BodyInv == (ms.ph = "done" /\ Mode = "body" /\ ms.isGet) =>
              BodyFailures(ms.req, ms.h, ms.bs, ms.toks, TRUE) = {}

\* C15 at the model level: HEAD and GET produce the same head, and HEAD no body and no calls
PairInv ==
  (ms.ph # "init" /\ ms.req.mclass \in {"get", "head"}) =>
     LET other == [ms.req EXCEPT !.mclass = IF ms.req.mclass = "get" THEN "head" ELSE "get"]
         oh == ImplHeadG(other, ms.conc, ms.now)
         hh == IF ms.req.mclass = "head" THEN ImplHeadG(ms.req, ms.conc, ms.now) ELSE oh
     IN ("C15" \in Enforce) =>
          /\ AsObserved(oh) = ms.h
          /\ (hh.status \in {200, 206, 304, 416}) => hh.body.k = "empty"
          /\ ImplInitialCalls(hh.body) = <<>>

\* every Impl choice lies inside the envelope even when it is not decided by the properties
EnvelopeInv == (ms.ph # "init") => ms.h.status \in Envelope

\* ---------------------------------------------------------------- witnesses (non-vacuity)
\* Each of these is expected to be VIOLATED (i.e. the situation is reachable); the driver
\* checks them in a separate run.
W_Multi == ~(ms.ph # "init" /\ ms.h.status = 206 /\ ms.h.ct.k = "multipart")
W_416 == ~(ms.ph # "init" /\ ms.h.status = 416)
W_412 == ~(ms.ph # "init" /\ ms.h.status = 412)
W_304 == ~(ms.ph # "init" /\ ms.h.status = 304)
W_413 == ~(ms.ph # "init" /\ ms.h.status = 413)
W_400 == ~(ms.ph # "init" /\ ms.h.status = 400)
W_ErrTerminal == ~(ms.ph = "done" /\ Mode = "body" /\ ms.bs.term = "err")
W_CleanMulti == ~(ms.ph = "done" /\ Mode = "body" /\ ms.bs.term = "end" /\ ms.h.ct.k = "multipart")
=============================================================================
