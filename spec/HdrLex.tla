------------------------------- MODULE HdrLex -------------------------------
(***************************************************************************)
(* Reference readers for the request header grammars, at character level.   *)
(*                                                                         *)
(* The seeded generators of the serve / negotiation engines choose an       *)
(* abstract view first and render it; nothing is ever parsed back.  This    *)
(* module goes the other way, independently: every string over a small      *)
(* alphabet (up to a bounded length) is *read* by a transcription of the    *)
(* RFC grammar into TLA+, which yields the abstract view the property       *)
(* predicates of Serve.tla / AcceptEncoding.tla speak about.  TLC           *)
(* enumerates the strings and prints one case per string (HdrLexGen); the   *)
(* real code is run on each and its answer validated by the ordinary trace  *)
(* specifications.  A parser change that accepts or rejects one string too  *)
(* many (a leading '+', a bare '-', a quoted-pair in an entity-tag, an      *)
(* upper-case coding) differs from the reference on some short string.      *)
(*                                                                         *)
(* A string is a sequence of one-character strings.                         *)
(***************************************************************************)
EXTENDS Integers, Sequences, FiniteSets, TLC

Digit == {"0", "1", "2", "3", "4", "5", "6", "7", "8", "9"}
DigitVal(c) == CASE c = "0" -> 0 [] c = "1" -> 1 [] c = "2" -> 2 [] c = "3" -> 3 [] c = "4" -> 4
                 [] c = "5" -> 5 [] c = "6" -> 6 [] c = "7" -> 7 [] c = "8" -> 8 [] c = "9" -> 9
WS == {" ", "\t"}

MinS(S) == CHOOSE x \in S : \A y \in S : x <= y
MaxS(S) == CHOOSE x \in S : \A y \in S : x >= y

RECURSIVE Split(_, _)
Split(s, sep) ==
  LET idx == {i \in 1..Len(s) : s[i] = sep}
  IN IF idx = {} THEN <<s>>
     ELSE LET i == MinS(idx) IN <<SubSeq(s, 1, i - 1)>> \o Split(SubSeq(s, i + 1, Len(s)), sep)

RECURSIVE TrimL(_)
TrimL(s) == IF Len(s) > 0 /\ s[1] \in WS THEN TrimL(Tail(s)) ELSE s
RECURSIVE TrimR(_)
TrimR(s) == IF Len(s) > 0 /\ s[Len(s)] \in WS THEN TrimR(SubSeq(s, 1, Len(s) - 1)) ELSE s
Trim(s) == TrimL(TrimR(s))

IsDigits(s) == Len(s) > 0 /\ \A i \in 1..Len(s) : s[i] \in Digit
RECURSIVE Val(_)
Val(s) == IF s = <<>> THEN 0 ELSE 10 * Val(SubSeq(s, 1, Len(s) - 1)) + DigitVal(s[Len(s)])

(***************************************************************************)
(* Range (RFC 7233 2.1, with the list rule of RFC 7230 7):                  *)
(*   byte-range-set  = 1#( byte-range-spec / suffix-byte-range-spec )       *)
(*   byte-range-spec = 1*DIGIT "-" [ 1*DIGIT ] ;  suffix = "-" 1*DIGIT      *)
(* `s` is what follows "bytes=".  Result:                                   *)
(*   [k |-> "ignored"]                 outside the grammar: complete 200     *)
(*   [k |-> "set", specs, free]        free = FALSE: a sender-grammar list   *)
(*        (elements separated by "," OWS), every reading of C03 applies;     *)
(*        free = TRUE: only a recipient must accept it (empty elements,      *)
(*        whitespace before a comma or at either end) or it contains a spec  *)
(*        with last < first -- honoured as read here, or ignored.            *)
(* Numbers stay below 10^9 (strings are short), so a limb triple is          *)
(* <<0, 0, v>>.                                                             *)
(***************************************************************************)
Limb(v) == <<0, 0, v>>
BadSpec == [k |-> "bad", a |-> Limb(0), b |-> Limb(0), n |-> Limb(0)]
ReadSpec(e) ==
  LET dash == {i \in 1..Len(e) : e[i] = "-"}
  IN IF Cardinality(dash) # 1 THEN BadSpec
     ELSE LET i == MinS(dash)
              l == SubSeq(e, 1, i - 1)
              r == SubSeq(e, i + 1, Len(e))
          IN CASE l = <<>> /\ IsDigits(r) -> [k |-> "s", a |-> Limb(0), b |-> Limb(0), n |-> Limb(Val(r))]
               [] IsDigits(l) /\ r = <<>> -> [k |-> "f", a |-> Limb(Val(l)), b |-> Limb(0), n |-> Limb(0)]
               [] IsDigits(l) /\ IsDigits(r) -> [k |-> "fl", a |-> Limb(Val(l)), b |-> Limb(Val(r)), n |-> Limb(0)]
               [] OTHER -> BadSpec

ReadRange(s) ==
  LET els == Split(s, ",")
      tr == [i \in DOMAIN els |-> Trim(els[i])]
      specs == [i \in DOMAIN els |-> IF tr[i] = <<>> THEN BadSpec ELSE ReadSpec(tr[i])]
      nonEmpty == {i \in DOMAIN els : tr[i] # <<>>}
      bad == \E i \in nonEmpty : specs[i].k = "bad"
      \* sender grammar: no empty element, no whitespace except directly after a comma
      strict == /\ nonEmpty = DOMAIN els
                /\ \A i \in DOMAIN els : TrimR(els[i]) = els[i]
                /\ TrimL(els[1]) = els[1]
      inverted == \E i \in nonEmpty : specs[i].k = "fl" /\ specs[i].b[3] < specs[i].a[3]
      kept == SelectSeq([i \in DOMAIN els |-> specs[i]], LAMBDA x : x.k # "bad")
  IN IF bad \/ nonEmpty = {} THEN [k |-> "ignored"]
     ELSE [k |-> "set", specs |-> kept, free |-> ~strict \/ inverted]

(***************************************************************************)
(* If-Match / If-None-Match (RFC 7232 2.3, 3.1, 3.2):                       *)
(*   "*" / 1#entity-tag ;  entity-tag = [ "W/" ] DQUOTE *etagc DQUOTE       *)
(* etagc is every character but DQUOTE here (the property lets tags contain *)
(* commas and spaces; there is no quoted-pair: a backslash is an ordinary    *)
(* character and the next DQUOTE ends the tag).  Result:                    *)
(*   [k |-> "star"] / [k |-> "list", tags |-> <<[w, op]...>>] / "garbage"    *)
(* garbage: not a well-formed value -- the properties leave the answer open  *)
(* (400 or ignored).  Lists only a recipient must accept (empty elements)    *)
(* are garbage here too: no claim.                                          *)
(***************************************************************************)
\* reads one entity-tag at the start of s (after optional whitespace); returns [ok, w, op, rest]
ReadTag(s0) ==
  LET s == TrimL(s0)
      weak == Len(s) >= 2 /\ s[1] = "W" /\ s[2] = "/"
      t == IF weak THEN SubSeq(s, 3, Len(s)) ELSE s
  IN IF Len(t) = 0 \/ t[1] # "\"" THEN [ok |-> FALSE, w |-> FALSE, op |-> <<>>, rest |-> <<>>]
     ELSE LET close == {i \in 2..Len(t) : t[i] = "\""}
          IN IF close = {} THEN [ok |-> FALSE, w |-> FALSE, op |-> <<>>, rest |-> <<>>]
             ELSE LET c == MinS(close)
                  IN [ok |-> TRUE, w |-> weak, op |-> SubSeq(t, 2, c - 1), rest |-> SubSeq(t, c + 1, Len(t))]

RECURSIVE ReadTags(_)
\* s: the rest of the field value, positioned at the start of an element.  Returns <<>> marker
\* [ok |-> FALSE] or [ok |-> TRUE, tags |-> ...]
ReadTags(s) ==
  LET r == ReadTag(s)
  IN IF ~r.ok THEN [ok |-> FALSE, tags |-> <<>>]
     ELSE LET after == TrimL(r.rest)
          IN IF after = <<>> THEN [ok |-> TRUE, tags |-> <<[w |-> r.w, op |-> r.op]>>]
             ELSE IF after[1] # "," THEN [ok |-> FALSE, tags |-> <<>>]
             ELSE LET more == ReadTags(Tail(after))
                  IN IF more.ok THEN [ok |-> TRUE, tags |-> <<[w |-> r.w, op |-> r.op]>> \o more.tags]
                     ELSE [ok |-> FALSE, tags |-> <<>>]

ReadTagList(s) ==
  IF s = <<"*">> THEN [k |-> "star"]
  ELSE LET r == ReadTags(s)
       IN IF r.ok /\ Trim(s) = s THEN [k |-> "list", tags |-> r.tags] ELSE [k |-> "garbage"]

(***************************************************************************)
(* Accept-Encoding (RFC 7231 5.3.4, 5.3.1):                                 *)
(*   #( codings [ weight ] ) ;  codings = token / "*"                       *)
(*   weight = OWS ";" OWS "q=" qvalue                                       *)
(*   qvalue = "0" [ "." 0*3DIGIT ] / "1" [ "." 0*3"0" ]                     *)
(* Coding names and the "q" are case-insensitive.  Result:                  *)
(*   [k |-> "list", l |-> <<[c, q]...>>]  (c in lower case, q in 1/1000)     *)
(*   [k |-> "garbage"]  outside the grammar: only "no panic" is claimed      *)
(* Empty list elements are skipped (a recipient must accept them).          *)
(***************************************************************************)
Upper == <<"A","B","C","D","E","F","G","H","I","J","K","L","M","N","O","P","Q","R","S","T","U","V","W","X","Y","Z">>
LowerL == <<"a","b","c","d","e","f","g","h","i","j","k","l","m","n","o","p","q","r","s","t","u","v","w","x","y","z">>
LowerC(c) == IF \E i \in 1..26 : Upper[i] = c THEN LowerL[CHOOSE i \in 1..26 : Upper[i] = c] ELSE c
LowerS(s) == [i \in DOMAIN s |-> LowerC(s[i])]
TChar == Digit \cup {Upper[i] : i \in 1..26} \cup {LowerL[i] : i \in 1..26}
           \cup {"!", "#", "$", "%", "&", "'", "*", "+", "-", ".", "^", "_", "`", "|", "~"}
IsToken(s) == Len(s) > 0 /\ \A i \in 1..Len(s) : s[i] \in TChar

\* thousandths, or -1
ReadQ(q) ==
  IF q = <<>> THEN -1
  ELSE IF q[1] \notin {"0", "1"} THEN -1
  ELSE IF Len(q) = 1 THEN (IF q[1] = "1" THEN 1000 ELSE 0)
  ELSE IF q[2] # "." \/ Len(q) > 5 THEN -1
  ELSE LET d == SubSeq(q, 3, Len(q))
       IN IF ~(\A i \in 1..Len(d) : d[i] \in Digit) THEN -1
          ELSE IF q[1] = "1" THEN (IF \A i \in 1..Len(d) : d[i] = "0" THEN 1000 ELSE -1)
          ELSE Val(d) * (CASE Len(d) = 0 -> 0 [] Len(d) = 1 -> 100 [] Len(d) = 2 -> 10 [] OTHER -> 1)

ReadElem(e) ==   \* e: trimmed, non-empty
  LET semi == {i \in 1..Len(e) : e[i] = ";"}
  IN IF semi = {} THEN (IF IsToken(e) THEN [ok |-> TRUE, c |-> LowerS(e), q |-> 1000] ELSE [ok |-> FALSE, c |-> <<>>, q |-> 0])
     ELSE LET i == MinS(semi)
              c == TrimR(SubSeq(e, 1, i - 1))
              p == TrimL(SubSeq(e, i + 1, Len(e)))
              isQ == Len(p) >= 2 /\ LowerC(p[1]) = "q" /\ p[2] = "="
              q == IF isQ THEN ReadQ(SubSeq(p, 3, Len(p))) ELSE -1
          IN IF IsToken(c) /\ q >= 0 THEN [ok |-> TRUE, c |-> LowerS(c), q |-> q] ELSE [ok |-> FALSE, c |-> <<>>, q |-> 0]

ReadAE(s) ==
  LET els == Split(s, ",")
      tr == [i \in DOMAIN els |-> Trim(els[i])]
      rd == [i \in DOMAIN els |-> IF tr[i] = <<>> THEN [ok |-> TRUE, c |-> <<>>, q |-> -1] ELSE ReadElem(tr[i])]
      kept == SelectSeq(rd, LAMBDA x : x.q >= 0 /\ x.ok)
  IN IF \E i \in DOMAIN els : ~rd[i].ok THEN [k |-> "garbage"]
     ELSE [k |-> "list", l |-> [i \in DOMAIN kept |-> [c |-> kept[i].c, q |-> kept[i].q]]]
=============================================================================
