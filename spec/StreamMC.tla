----------------------------- MODULE StreamMC -----------------------------
(***************************************************************************)
(* Exhaustive model checking of the streaming-body Impl model against the  *)
(* property predicates of Stream: every producer program of up to MaxOps    *)
(* operations (closed by drop), every chunk size in Caps, every             *)
(* interleaving of producer steps with the consumer loop at lock / wake     *)
(* granularity, the consumer presenting waker 1 or 2 at each poll,          *)
(* re-polling spuriously up to MaxSpur times while parked, probing          *)
(* size_hint / is_end_stream up to MaxProbes times, polling MaxExtra times  *)
(* after the terminal event and (if AllowCDrop) dropping the body at any    *)
(* point.                                                                   *)
(*                                                                         *)
(* Lost wake-ups show up as deadlocks: a parked consumer that nobody will   *)
(* wake has no enabled step, and neither has a finished producer.           *)
(***************************************************************************)
EXTENDS Stream

CONSTANTS Caps, WSizes, MaxOps, MaxSpur, MaxProbes, MaxExtra, AllowCDrop, AllowAbort, AllowWait

VARIABLES c,      \* Impl state
          os,     \* observation history
          k       \* consumer budgets [spur, probes, extra]
vars == <<c, os, k>>

OpSet == {Op("write", n) : n \in WSizes} \cup {Op("flush", 0)}
         \cup (IF AllowAbort THEN {Op("abort", 0)} ELSE {})
         \cup (IF AllowWait THEN {Op("wait", 0)} ELSE {})
Programs(u) == UNION {{p \o <<Op("drop", 0)>> : p \in [1..m -> OpSet]} : m \in 0..MaxOps}

InflightOf(cc) == IF cc.cur.op = "write" THEN cc.cur.n ELSE 0

PEvent(c2, done, wake) ==
  [t |-> "P", done |-> done, wake |-> wake, cop |-> "", w |-> 0, r |-> NoRes,
   inflight |-> InflightOf(c2), curop |-> c2.cur.op, snap |-> Snap(c2), pfin |-> ProducerFinished(c2),
   buffered |-> IF c2.dead THEN -1 ELSE c2.buf, cap |-> c2.cap, gz |-> FALSE]

CEvent(c2, op, w, r) ==
  [t |-> "C", done |-> <<>>, wake |-> 0, cop |-> op, w |-> w, r |-> r,
   inflight |-> InflightOf(c2), curop |-> c2.cur.op, snap |-> Snap(c2), pfin |-> ProducerFinished(c2),
   buffered |-> IF c2.dead THEN -1 ELSE c2.buf, cap |-> c2.cap, gz |-> FALSE]

Init ==
  \E cap \in Caps, prog \in Programs(0) :
     LET s0 == RunLocal(InitImpl(cap, prog), <<>>) IN
     /\ c = s0.c
     /\ os = ObserveStep(InitObs, PEvent(s0.c, s0.done, 0))
     /\ k = [spur |-> 0, probes |-> 0, extra |-> 0]

P_Step ==
  /\ PRunnable(c)
  /\ LET s == PStep(c)
         wake == IF c.todo[1].m = "wake" THEN c.todo[1].w ELSE 0
     IN /\ c' = s.c
        /\ os' = ObserveStep(os, PEvent(s.c, s.done, wake))
  /\ UNCHANGED k

\* the consumer may poll when it is not parked, when its waker has been woken, or spuriously
CanPoll == c.alive /\ (c.park = 0 \/ c.park \in c.woken \/ k.spur < MaxSpur)

C_Poll(w) ==
  /\ CanPoll
  /\ (os.term # "none") => k.extra < MaxExtra
  /\ LET s == CStep(c, "poll", w)
         spurious == c.park # 0 /\ c.park \notin c.woken
     IN /\ c' = s.c
        /\ os' = ObserveStep(os, CEvent(s.c, "poll", w, s.r))
        /\ k' = [k EXCEPT !.spur = IF spurious THEN @ + 1 ELSE @,
                          !.extra = IF os.term # "none" THEN @ + 1 ELSE @]

C_Probe(op) ==
  /\ c.alive /\ k.probes < MaxProbes
  /\ LET s == CStep(c, op, 0)
     IN /\ c' = s.c
        /\ os' = ObserveStep(os, CEvent(s.c, op, 0, s.r))
  /\ k' = [k EXCEPT !.probes = @ + 1]

C_Drop ==
  /\ AllowCDrop /\ c.alive
  /\ LET s == CStep(c, "drop", 0)
     IN /\ c' = s.c
        /\ os' = ObserveStep(os, CEvent(s.c, "drop", 0, s.r))
  /\ UNCHANGED k

\* the run is over: producer finished and the consumer has seen the terminal event (and used
\* its extra polls or not) or has dropped the body
Finished == ProducerFinished(c) /\ (~c.alive \/ os.term # "none")
Done == Finished /\ UNCHANGED vars

Next == P_Step \/ (\E w \in {1, 2} : C_Poll(w)) \/ C_Probe("hint") \/ C_Probe("eos") \/ C_Drop \/ Done

Spec == Init /\ [][Next]_vars
FairSpec == Spec /\ WF_vars(P_Step) /\ WF_vars(\E w \in {1, 2} : C_Poll(w))

\* ---------------------------------------------------------------- invariants
PropInv == os.bad = {}

\* C10 at the model level: if the consumer is parked and something is deliverable, the wake-up
\* has happened or is the producer's very next step
NoLostWakeup ==
  ("C10" \in Enforce /\ c.alive /\ c.park # 0 /\ Deliverable(Snap(c))) =>
     (c.park \in c.woken \/ (Len(c.todo) > 0 /\ c.todo[1].m = "wake" /\ c.todo[1].w = c.park))

\* queue bookkeeping
Consistent ==
  /\ c.st = "ok" => c.rb = c.pub - c.del
  /\ c.acc + InflightOf(c) >= c.pub
  /\ os.del = c.del /\ os.acc = c.acc

\* C10 liveness: once the producer is gone the consumer sees the terminal event
EventuallyTerminal == <>(~c.alive \/ os.term # "none")

\* ---------------------------------------------------------------- witnesses (expected violated)
W_Parked == ~(c.park # 0 /\ Len(c.todo) > 0 /\ c.todo[1].m = "wake")
W_CleanEnd == ~(os.term = "end" /\ os.del > 0)
W_ErrEnd == ~(os.term = "err")
W_WriteFails == ~(os.wfailed)
W_Spurious == ~(k.spur > 0 /\ os.term = "end")
=============================================================================
