----------------------- MODULE AcceptEncodingProofs -----------------------
(***************************************************************************)
(* TLAPS proofs (unbounded: all integer qualities, not only the weight      *)
(* tokens TLC enumerates) of the sanity lemmas of the C16 specification:    *)
(* the decision is monotone in gzip's quality, antitone in identity's, and  *)
(* gzip is never chosen when neither gzip nor "*" is listed or when gzip's  *)
(* own quality is 0.                                                        *)
(*   tlapm --threads 8 AcceptEncodingProofs.tla                             *)
(***************************************************************************)
EXTENDS AcceptEncoding, TLAPS

\* (Decide is the operator of AcceptEncoding.tla itself; -1 = not listed)

THEOREM Monotone ==
  ASSUME NEW g1 \in Int, NEW g2 \in Int, NEW i \in Int, NEW s \in Int,
         g1 >= 0, g1 <= g2, Decide(g1, i, s)
  PROVE  Decide(g2, i, s)
BY DEF Decide

THEOREM Antitone ==
  ASSUME NEW g \in Int, NEW i1 \in Int, NEW i2 \in Int, NEW s \in Int,
         i1 >= 0, i1 <= i2, Decide(g, i2, s)
  PROVE  Decide(g, i1, s)
BY DEF Decide

THEOREM NeverUnlisted ==
  ASSUME NEW i \in Int
  PROVE  ~Decide(-1, i, -1)
BY DEF Decide

THEOREM NeverZero ==
  ASSUME NEW i \in Int, NEW s \in Int
  PROVE  ~Decide(0, i, s)
BY DEF Decide

\* identity not mentioned and no "*": any positive gzip quality wins
THEOREM DefaultIdentity ==
  ASSUME NEW g \in Int, g > 0
  PROVE  Decide(g, -1, -1)
BY DEF Decide

\* "*" stands in for gzip exactly when gzip is not listed
THEOREM StarForGzip ==
  ASSUME NEW i \in Int, NEW s \in Int, s >= 0
  PROVE  Decide(-1, i, s) <=> Decide(s, i, s)
BY DEF Decide
=============================================================================
