------------------------------- MODULE U64 -------------------------------
(* Unsigned 64-bit arithmetic for TLC, whose integers are 32-bit.            *)
(* A number is a triple <<l2, l1, l0>> of base-10^9 limbs, most significant  *)
(* first.  Values up to about 2*10^27 are representable (l2 < 2^31), which   *)
(* is what makes overflow of u64 (checked_add in the code) observable.       *)
EXTENDS Naturals, Sequences

B == 1000000000

N(n) == <<0, 0, n>>                      \* a small natural (n < B) as limbs
Zero == <<0, 0, 0>>
One == <<0, 0, 1>>
MaxU64 == <<18, 446744073, 709551615>>   \* 2^64 - 1

IsLimbs(a) == /\ Len(a) = 3 /\ a[1] \in Nat /\ a[2] \in 0..(B-1) /\ a[3] \in 0..(B-1)

Eq(a, b) == a = b
Lt(a, b) == \/ a[1] < b[1]
            \/ (a[1] = b[1] /\ a[2] < b[2])
            \/ (a[1] = b[1] /\ a[2] = b[2] /\ a[3] < b[3])
Le(a, b) == a = b \/ Lt(a, b)
IsZero(a) == a = Zero
Min(a, b) == IF Lt(b, a) THEN b ELSE a
Max(a, b) == IF Lt(a, b) THEN b ELSE a

IsU64(a) == Le(a, MaxU64)

Add(a, b) ==
  LET s0 == a[3] + b[3]
      c0 == s0 \div B
      s1 == a[2] + b[2] + c0
      c1 == s1 \div B
  IN <<a[1] + b[1] + c1, s1 % B, s0 % B>>

\* a - b, defined for b <= a
Sub(a, b) ==
  LET d0 == a[3] - b[3]  \* may be negative: use borrow
      bo0 == IF a[3] < b[3] THEN 1 ELSE 0
      r0 == IF bo0 = 1 THEN a[3] + B - b[3] ELSE a[3] - b[3]
      bo1 == IF a[2] < b[2] + bo0 THEN 1 ELSE 0
      r1 == IF bo1 = 1 THEN a[2] + B - b[2] - bo0 ELSE a[2] - b[2] - bo0
  IN <<a[1] - b[1] - bo1, r1, r0>>

Pred(a) == Sub(a, One)
Succ(a) == Add(a, One)
AddN(a, n) == Add(a, N(n))

\* number of decimal digits of a small natural (< 10^9)
RECURSIVE DigitsNat(_)
DigitsNat(n) == IF n < 10 THEN 1 ELSE 1 + DigitsNat(n \div 10)

\* number of decimal digits of a limb number (what `{}` formatting produces)
Width(a) == IF a[1] > 0 THEN 18 + DigitsNat(a[1])
            ELSE IF a[2] > 0 THEN 9 + DigitsNat(a[2])
            ELSE DigitsNat(a[3])

\* a mod 251.  10^9 mod 251 = 187, 10^18 mod 251 = 80.
Mod251(a) == ((a[1] % 251) * 80 + (a[2] % 251) * 187 + (a[3] % 251)) % 251

\* the small natural a limb number denotes, when it is one
ToNat(a) == a[3]
IsSmall(a) == a[1] = 0 /\ a[2] = 0

\* size of the closed interval [a, b], b >= a
Size(a, b) == Succ(Sub(b, a))

=============================================================================
