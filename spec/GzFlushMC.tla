----------------------------- MODULE GzFlushMC -----------------------------
(* Exhaustive check of GzFlush: every program of writes / flushes / a final  *)
(* drop within the bounds, for BodyWriter::flush as repaired (fixed = TRUE)  *)
(* and as it was (fixed = FALSE, expected to lose flushes: witness).         *)
EXTENDS GzFlush
CONSTANT Enforce
VARIABLE s
vars == <<s>>

Init == \E f \in BOOLEAN : s = Init0(f)

Write(n) == /\ ~s.dead /\ s.acc + n <= MaxAcc /\ s.ops < MaxOps
            /\ LET r == ZWrite(s, n) IN s' = [r.st EXCEPT !.last = "write", !.lastOut = Len(s.out), !.ops = s.ops + 1]
Flush == /\ ~s.dead /\ s.ops < MaxOps
         /\ \E t \in BFlush([s EXCEPT !.passes = 0], 0) :
               s' = [t EXCEPT !.last = "flush", !.lastOut = Len(s.out), !.ops = s.ops + 1]
DropW == /\ ~s.dead
         /\ s' = [ZFinish(s) EXCEPT !.last = "drop", !.dead = TRUE, !.lastOut = Len(s.out)]
Next == (\E n \in WriteSizes : Write(n)) \/ Flush \/ DropW
Spec == Init /\ [][Next]_vars

\* ---- invariants (C09's share of this layer)
FlushInv == s.fixed => FlushComplete(s)
FinishInv == FinishComplete(s)
ConservedInv == Conserved(s)
LemmaInv == ~s.dead => PassLemma(s)
\* the repaired flush needs at most three passes within these bounds
PassesInv == s.passes <= 3
Bounded == Len(s.fbuf) <= Cap /\ s.look < LookMax + InMax

\* ---- witnesses (each must be VIOLATED)
\* flate2's flush alone loses accepted bytes: this is defect F10
W_PlainFlushComplete == ~s.fixed => FlushComplete(s)
\* the repaired flush does take a second pass somewhere
W_OnePass == s.passes <= 1
\* short writes happen
W_NoShortWrite == s.last = "write" => s.acc - Data(s.out) - Data(s.fbuf) - Data(s.pend) - s.look = 0 /\ Len(s.pend) = 0
=============================================================================
