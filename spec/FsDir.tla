------------------------------- MODULE FsDir -------------------------------
(***************************************************************************)
(* FsDir::get (dir.rs): path validation, resolution relative to the base    *)
(* directory, .gz sibling substitution.                                     *)
(*                                                                         *)
(* The directory tree is the one the harness builds (a constant of this     *)
(* module); nodes are named by their path from the tree's root, "" being    *)
(* the root itself.  `base` is the served directory; `secret` lies outside. *)
(* Resolve models POSIX path resolution deliberately including "..", so     *)
(* that escaping the base directory is representable.                       *)
(***************************************************************************)
EXTENDS Integers, Sequences, FiniteSets, TLC, AcceptEncoding
CONSTANT Enforce

Files == {"secret", "base/a", "base/a.gz", "base/b", "base/sub/a", "base/sub/c.gz", "base/...", "base/..a",
          "base/a..", "base/.gz", "base/sub/.gz", "base/....gz", "base/b.gz/x", "base/sub/...",
          "base/sub/a...gz", "base/a...gz", "base/a.gz.gz", "base/sub/c.gz.gz",
          "base/dev", "base/dev.gz"}            \* (dev.gz: a symbolic link to /dev/null -- exists, no directory, no regular file)
Special == {"base/dev.gz"}
Dirs == {"", "base", "base/sub", "base/b.gz"}
Nodes == Files \cup Dirs
Parent == [d \in Dirs |-> CASE d = "" -> "" [] d = "base" -> "" [] OTHER -> "base"]
Child(d, name) == IF d = "" THEN name ELSE d \o "/" \o name
Inside == {n \in Nodes : n = "base" \/ (Len(n) > 5 /\ SubSeq(n, 1, 5) = "base/")}

Err(kind) == [k |-> "err", kind |-> kind]
Node(n) == [k |-> "node", name |-> n]

\* POSIX resolution of the segment sequence segs (the path split at "/") starting at directory d
RECURSIVE Walk(_, _, _)
Walk(cur, segs, i) ==
  IF i > Len(segs) THEN Node(cur)
  ELSE IF cur \notin Dirs THEN Err("NotADirectory")
  ELSE LET s == segs[i] IN
       IF s = "" \/ s = "." THEN Walk(cur, segs, i + 1)
       ELSE IF s = ".." THEN Walk(Parent[cur], segs, i + 1)
       ELSE IF Child(cur, s) \in Nodes THEN Walk(Child(cur, s), segs, i + 1)
       ELSE IF i < Len(segs) /\ \E j \in (i + 1)..Len(segs) : segs[j] # ""
            THEN Err("NotFound") ELSE Err("NotFound")
Resolve(d, segs) ==
  IF segs = <<"">> THEN Err("NotFound")                         \* the empty path
  ELSE LET r == Walk(d, segs, 1) IN
       \* a trailing slash (or "." last) requires a directory
       IF r.k = "node" /\ r.name \notin Dirs /\ segs[Len(segs)] \in {"", "."} /\ Len(segs) > 1
       THEN Err("NotADirectory") ELSE r

WithGz(segs) == [segs EXCEPT ![Len(segs)] = @ \o ".gz"]

\* C19: which paths must be refused
Invalid(abs) == \/ abs.nul
                \/ (Len(abs.segs) > 1 /\ abs.segs[1] = "")     \* absolute
                \/ \E i \in DOMAIN abs.segs : abs.segs[i] = ".."

\* Property predicate over one observation e:
\*   abs [segs, nul], ae (abstract Accept-Encoding), auto, res (what get returned),
\*   plain / gzsib (what the operating system does for base/<path> and base/<path>.gz)
C19_OK(e) ==
  IF Invalid(e.abs) THEN e.res.k = "err" /\ e.res.kind = "InvalidInput"
  ELSE
  LET prefer == AllowedFor(e.ae)
      sib == e.gzsib.k = "node" /\ ~e.gzsib.dir
      asGz == /\ e.res.k = "node" /\ e.res.name = e.gzsib.name /\ e.res.enc = "gzip" /\ e.res.ce = "gzip"
      asPlain == \/ (e.plain.k = "node" /\ e.res.k = "node" /\ e.res.name = e.plain.name
                       /\ e.res.enc = "" /\ e.res.ce = "")
                 \/ (e.plain.k = "err" /\ e.res.k = "err" /\ e.res.kind = e.plain.kind)
  IN /\ e.res.k # "panic"
     /\ \/ (e.auto /\ sib /\ TRUE \in prefer /\ asGz)
        \/ (~(e.auto /\ sib /\ prefer = {TRUE}) /\ asPlain)
     /\ (e.res.k = "node") => /\ e.res.name \in Inside
                              \* as an entity: refused exactly for non-regular nodes, length = file size
                              /\ e.res.ent_ok = e.res.reg
                              /\ e.res.ent_ok => e.res.ent_len = e.res.size
                              /\ (e.res.vary = "accept-encoding") <=> e.auto
                              /\ e.res.vary \in {"", "accept-encoding"}
                              /\ e.res.varies = e.auto

\* ---- Impl (dir.rs:88-136, 232-252)
ImplGet(abs, ae, auto) ==
  IF abs.nul THEN Err("InvalidInput")
  ELSE IF Len(abs.segs) > 1 /\ abs.segs[1] = "" THEN Err("InvalidInput")
  ELSE IF \E i \in DOMAIN abs.segs : abs.segs[i] = ".." THEN Err("InvalidInput")
  ELSE LET plain == Resolve("base", abs.segs)
           gz == Resolve("base", WithGz(abs.segs))
       IN IF auto /\ ImplShouldGzip(ae)
          THEN IF gz.k = "node" /\ gz.name \notin Dirs THEN [gz EXCEPT !.k = "gznode"]
               ELSE IF gz.k = "err" /\ gz.kind # "NotFound" THEN gz
               ELSE plain
          ELSE plain
=============================================================================
