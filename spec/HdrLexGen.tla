----------------------------- MODULE HdrLexGen -----------------------------
(* Spec -> implementation: TLC enumerates every string of up to N characters *)
(* over the alphabet of the chosen header and prints it with the abstract    *)
(* view HdrLex reads from it (one line per string, consumed by tools).       *)
EXTENDS HdrLex, Json
CONSTANTS Mode, N
VARIABLE x

\* Symbols (short character sequences) rather than single characters, so that a few symbols already
\* give two-element lists; a string is the concatenation of up to N symbols.
RangeSyms == {<<"0">>, <<"1">>, <<"9">>, <<"-">>, <<",">>, <<" ">>, <<"x">>, <<"+">>}
TagSyms == {<<"\"", "a", "\"">>, <<"\"", "b", "\"">>, <<"W", "/">>, <<",">>, <<" ">>, <<"\"">>, <<"a">>, <<"\\">>, <<"*">>}
AESyms == {<<"g","z","i","p">>, <<"i","d","e","n","t","i","t","y">>, <<"*">>, <<"b","r">>, <<";">>, <<"q","=">>,
           <<"0">>, <<"1">>, <<".">>, <<"5">>, <<" ">>, <<",">>, <<"G","Z","I","P">>, <<"Q","=">>,
           <<";","q","=","0">>, <<";","q","=","0",".","5">>}
RECURSIVE Flat(_)
Flat(q) == IF q = <<>> THEN <<>> ELSE Head(q) \o Flat(Tail(q))
Strs(A, n) == {Flat(q) : q \in UNION {[1..k -> A] : k \in 0..n}}

EmitRange == \A s \in Strs(RangeSyms, N) : PrintT(<<"CASE", ToJson([s |-> s, abs |-> ReadRange(s)])>>)
EmitTags == \A s \in Strs(TagSyms, N) : PrintT(<<"CASE", ToJson([s |-> s, abs |-> ReadTagList(s)])>>)

ASSUME (Mode = "range") => EmitRange
ASSUME (Mode = "tags") => EmitTags
EmitAE == \A s \in Strs(AESyms, N) : PrintT(<<"CASE", ToJson([s |-> s, abs |-> ReadAE(s)])>>)
ASSUME (Mode = "ae") => EmitAE

Init == x = 0
Next == UNCHANGED x
Spec == Init /\ [][Next]_x
=============================================================================
