--------------------------- MODULE AcceptEncoding ---------------------------
(***************************************************************************)
(* RFC 7231 section 5.3.4 preference of gzip versus identity, transcribed  *)
(* from property C16 (not from the code).                                  *)
(*                                                                         *)
(* An Accept-Encoding value is, abstractly, a sequence of elements          *)
(* [c |-> coding, q |-> quality in thousandths] (no weight = 1000).         *)
(* The header may also be absent ([k |-> "absent"]) or not grammatical      *)
(* ([k |-> "garbage"]: no claim beyond "no panic").                         *)
(***************************************************************************)
EXTENDS Integers, Sequences, FiniteSets

\* qualities listed for coding c (a set: a coding may be listed more than once, and the
\* property leaves open which occurrence counts)
Listed(list, c) == {list[i].q : i \in {j \in DOMAIN list : list[j].c = c}}

\* the decision for one choice of listed qualities (-1 = not listed)
Decide(g, i, s) ==
  LET gq == IF g >= 0 THEN g ELSE s                      \* gzip: own quality, else that of "*"
      iq == IF i >= 0 THEN i ELSE IF s >= 0 THEN s ELSE 1 \* identity: own, else "*"'s, else the
                                                           \* least-preferred acceptable coding
  IN gq > 0 /\ gq >= iq

OrUnlisted(S) == IF S = {} THEN {-1} ELSE S

\* the set of results the property allows for a grammatical list
Allowed(list) ==
  {Decide(g, i, s) : g \in OrUnlisted(Listed(list, "gzip")),
                     i \in OrUnlisted(Listed(list, "identity")),
                     s \in OrUnlisted(Listed(list, "*"))}

\* the decision when no coding is listed twice
ShouldGzip(list) == CHOOSE b \in Allowed(list) : TRUE

\* ae: [k |-> "absent"] | [k |-> "list", l |-> <<...>>] | [k |-> "garbage"]
AllowedFor(ae) ==
  CASE ae.k = "absent" -> {FALSE}
    [] ae.k = "list" -> Allowed(ae.l)
    [] OTHER -> {TRUE, FALSE}

\* what the code does with duplicates (lib.rs:252-281): the last occurrence wins
LastOf(list, c) ==
  LET idx == {j \in DOMAIN list : list[j].c = c} IN
  IF idx = {} THEN -1 ELSE list[CHOOSE j \in idx : \A m \in idx : m <= j].q
ImplShouldGzip(ae) ==
  IF ae.k # "list" THEN FALSE
  ELSE Decide(LastOf(ae.l, "gzip"), LastOf(ae.l, "identity"), LastOf(ae.l, "*"))
=============================================================================
