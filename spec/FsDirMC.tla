------------------------------ MODULE FsDirMC ------------------------------
(* Exhaustive: every path of up to MaxSegs segments over SegSet (optionally  *)
(* with leading / trailing slash and a NUL), every Accept-Encoding class,    *)
(* auto_gzip on/off.  Shows that validation is sufficient (nothing accepted  *)
(* resolves outside the base directory) and not excessive.                   *)
EXTENDS FsDir
CONSTANTS SegSet, MaxSegs
VARIABLE q
AEs == {[k |-> "absent"], [k |-> "list", l |-> <<[c |-> "gzip", q |-> 1000]>>],
        [k |-> "list", l |-> <<[c |-> "gzip", q |-> 0]>>], [k |-> "list", l |-> <<[c |-> "identity", q |-> 1000]>>],
        [k |-> "list", l |-> <<[c |-> "*", q |-> 1000]>>]}
Paths(u) == UNION {[1..n -> SegSet] : n \in 1..MaxSegs}
Init == \E segs \in Paths(0), nul \in BOOLEAN, ae \in AEs, auto \in BOOLEAN :
           q = [abs |-> [segs |-> segs, nul |-> nul], ae |-> ae, auto |-> auto]
Next == UNCHANGED q
Spec == Init /\ [][Next]_q

R == ImplGet(q.abs, q.ae, q.auto)
\* containment: whatever is opened lies inside the base directory
Contained == (R.k \in {"node", "gznode"}) => R.name \in Inside
\* validation alone is sufficient: an accepted path never resolves outside, even without openat
Sufficient == (~Invalid(q.abs)) => LET r == Resolve("base", q.abs.segs) IN r.k = "node" => r.name \in Inside
Rejects == Invalid(q.abs) => R = Err("InvalidInput")
\* exactness: the property predicate holds with the model's own resolution as the OS facts
AsObs(r) == IF r.k = "gznode" THEN [k |-> "node", name |-> r.name, enc |-> "gzip", ce |-> "gzip",
                                     vary |-> IF q.auto THEN "accept-encoding" ELSE "", varies |-> q.auto,
                                     dir |-> FALSE, reg |-> r.name \notin Special, ent_ok |-> r.name \notin Special,
                                     ent_len |-> 1, size |-> 1]
            ELSE IF r.k = "node" THEN [k |-> "node", name |-> r.name, enc |-> "", ce |-> "",
                                       vary |-> IF q.auto THEN "accept-encoding" ELSE "", varies |-> q.auto,
                                       dir |-> r.name \in Dirs, reg |-> r.name \notin Dirs \cup Special,
                                       ent_ok |-> r.name \notin Dirs \cup Special, ent_len |-> 1, size |-> 1]
            ELSE r
OsFact(r) == IF r.k = "node" THEN [k |-> "node", name |-> r.name, dir |-> r.name \in Dirs] ELSE r
Exact == ("C19" \in Enforce) =>
           C19_OK([abs |-> q.abs, ae |-> q.ae, auto |-> q.auto, res |-> AsObs(R),
                   plain |-> OsFact(Resolve("base", q.abs.segs)),
                   gzsib |-> OsFact(Resolve("base", WithGz(q.abs.segs)))])
\* witnesses
W_Dots == ~(~Invalid(q.abs) /\ R.k = "node" /\ R.name \in {"base/...", "base/..a", "base/a..", "base/sub/..."})
W_Gz == ~(R.k = "gznode")
W_Escape == ~(LET r == Resolve("base", q.abs.segs) IN r.k = "node" /\ r.name = "secret")
=============================================================================
