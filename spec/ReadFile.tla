------------------------------ MODULE ReadFile ------------------------------
(***************************************************************************)
(* ChunkedReadFile (file.rs, platform.rs::read_at): the stream returned by  *)
(* get_range(a..b) over a file that may be truncated between polls.         *)
(* Part 1: Impl (unfold over (remaining range, file), at most ReadSize      *)
(* bytes per read, zero-byte read = UnexpectedEof).  Part 2: observation    *)
(* history and the predicates of C18.                                       *)
(***************************************************************************)
EXTENDS Integers, Sequences, FiniteSets, TLC
CONSTANT Enforce

Min2(x, y) == IF x < y THEN x ELSE y

\* ---- Impl: st = [s (next offset), e (range end)], cur = current file length
ImplRead(st, cur, ReadSize) ==
  IF st.s = st.e THEN [res |-> "end", n |-> 0, st |-> st]
  ELSE IF st.s >= cur THEN [res |-> "err", n |-> 0, st |-> st]
  ELSE LET n == Min2(ReadSize, Min2(st.e - st.s, cur - st.s))
       IN [res |-> "data", n |-> n, st |-> [st EXCEPT !.s = st.s + n]]

\* ---- observation history of one stream
\* zero: every byte of the file is zero (a hole) instead of the harness's position-coded content
InitFileZ(size, a, b, zero) ==
  [size |-> size, cur |-> size, a |-> a, b |-> b, y |-> 0, term |-> "none", polls |-> 0, pend |-> 0, bad |-> {},
   zero |-> zero]
InitFile(size, a, b) == InitFileZ(size, a, b, FALSE)

Truncate(fs, len) == [fs EXCEPT !.cur = IF len < fs.cur THEN len ELSE fs.cur]

\* p: [res, n, runs, z]  (runs: <<first byte, length>> of each ascending run of the chunk; z: all bytes zero)
ContentOK(fs, p) == IF fs.zero THEN p.z ELSE p.runs = <<<<(fs.a + fs.y) % 251, p.n>>>>
PollFailures(fs, p) ==
  {id \in Enforce : id = "C18" /\
     \/ p.res = "data" /\ (p.n < 1 \/ fs.y + p.n > fs.b - fs.a
                             \/ ~ContentOK(fs, p))                       \* exactly the file bytes, in order
     \/ p.res = "data" /\ fs.a + fs.y + p.n > fs.cur                      \* bytes beyond the end of the file
     \/ p.res = "end" /\ fs.y # fs.b - fs.a                               \* never ends short
     \/ p.res = "err" /\ fs.cur >= fs.b                                   \* fails only when truncated
     \/ p.res = "err" /\ fs.y = fs.b - fs.a
     \/ p.res \in {"panic", "maxpolls"}                                   \* no loop, no crash
     \/ p.res = "pending" /\ fs.pend >= 4
     \/ fs.term # "none" }

ObservePoll(fs, p) ==
  [fs EXCEPT !.y = IF p.res = "data" THEN fs.y + p.n ELSE fs.y,
             !.term = IF p.res \in {"end", "err"} /\ fs.term = "none" THEN p.res ELSE fs.term,
             !.polls = fs.polls + 1,
             !.pend = IF p.res = "pending" THEN fs.pend + 1 ELSE 0,
             !.bad = fs.bad \cup PollFailures(fs, p)]

\* metadata clauses at construction
OpenFailures(o) ==
  {id \in Enforce : id = "C18" /\
     \/ ~o.ok
     \/ o.len # o.sizeL
     \/ o.lm_s # o.mt_s \/ o.lm_ns # o.mt_ns
     \/ o.etag.k # "tag"
     \/ ~(o.etag.q0 /\ o.etag.qn /\ o.etag.inner = 0 /\ ~o.etag.weak /\ o.etag.vchar)}

\* version histories: the etag is a function of the version, and an injective one
\* vs: sequence of [ver, etag]
HistoryFailures(vs) ==
  {id \in Enforce : id = "C18" /\
     \E i \in DOMAIN vs, j \in DOMAIN vs :
        \/ vs[i].etag.k # "tag"
        \/ (vs[i].etag.k = "tag" /\ ~(vs[i].etag.q0 /\ vs[i].etag.qn /\ ~vs[i].etag.weak))   \* a strong tag, always
        \/ (vs[i].ver = vs[j].ver) # (vs[i].etag.v = vs[j].etag.v)}
=============================================================================
