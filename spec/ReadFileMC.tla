----------------------------- MODULE ReadFileMC -----------------------------
(* Exhaustive: every file size 0..MaxSize, every range within it, every     *)
(* truncation to every shorter length before every poll, read size          *)
(* ReadSize.                                                                *)
EXTENDS ReadFile
CONSTANTS MaxSize, ReadSize, MaxTrunc
VARIABLES fs, st, nt
vars == <<fs, st, nt>>
Init == \E size \in 0..MaxSize : \E a \in 0..size : \E b \in a..size :
          /\ fs = InitFile(size, a, b) /\ st = [s |-> a, e |-> b] /\ nt = 0
Trunc == /\ fs.term = "none" /\ nt < MaxTrunc
         /\ \E len \in 0..(fs.cur - 1) : fs' = Truncate(fs, len)
         /\ nt' = nt + 1 /\ UNCHANGED st
Poll == /\ fs.term = "none"
        /\ LET r == ImplRead(st, fs.cur, ReadSize)
               p == [res |-> r.res, n |-> r.n, runs |-> IF r.res = "data" THEN <<<<st.s % 251, r.n>>>> ELSE <<>>]
           IN fs' = ObservePoll(fs, p) /\ st' = r.st
        /\ UNCHANGED nt
Done == fs.term # "none" /\ UNCHANGED vars
Next == Trunc \/ Poll \/ Done
Spec == Init /\ [][Next]_vars
PropInv == fs.bad = {}
Bounded == fs.polls <= fs.y + 1
W_Err == ~(fs.term = "err" /\ fs.y > 0)
W_MultiChunk == ~(fs.term = "end" /\ fs.polls >= 3)
=============================================================================
