------------------------------- MODULE NegMC -------------------------------
(***************************************************************************)
(* Sanity lemmas on the AcceptEncoding specification itself and agreement  *)
(* of the Impl reading (last duplicate wins) with it, over all lists of up  *)
(* to MaxLen elements over Codings x Quals.                                 *)
(***************************************************************************)
EXTENDS AcceptEncoding, TLC
CONSTANTS Codings, Quals, MaxLen
VARIABLE l
Elems == {[c |-> c, q |-> q] : c \in Codings, q \in Quals}
Init == \E n \in 0..MaxLen : l \in [1..n -> Elems]
Next == UNCHANGED l
Spec == Init /\ [][Next]_l

NoDup(list) == \A c \in {"gzip", "identity", "*"} : Cardinality(Listed(list, c)) <= 1
ae == [k |-> "list", l |-> l]
\* the code's choice always lies inside the property's envelope
ImplInside == ImplShouldGzip(ae) \in Allowed(l)
\* without duplicates the property determines the answer
Deterministic == NoDup(l) => Cardinality(Allowed(l)) = 1
\* never gzip for a client that did not allow it
NeverUnlisted == (Listed(l, "gzip") = {} /\ Listed(l, "*") = {}) => Allowed(l) = {FALSE}
NeverZero == (Listed(l, "gzip") = {0}) => Allowed(l) = {FALSE}
\* monotone in gzip's quality, antitone in identity's
Monotone ==
  \A g1 \in Quals, g2 \in Quals, i \in Quals \cup {-1}, s \in Quals \cup {-1} :
     (g1 <= g2 /\ Decide(g1, i, s)) => Decide(g2, i, s)
Antitone ==
  \A g \in Quals \cup {-1}, i1 \in Quals, i2 \in Quals, s \in Quals \cup {-1} :
     (i1 <= i2 /\ Decide(g, i2, s)) => Decide(g, i1, s)
W_True == ~(TRUE \in Allowed(l))
W_Both == ~(Cardinality(Allowed(l)) = 2)
=============================================================================
