---------------------------- MODULE StreamTrace ----------------------------
(***************************************************************************)
(* Trace validation for the streaming engine.  Reads the ndjson trace       *)
(* written by `vh stream`: per case a reset event (chunk size, producer     *)
(* program, abstract Accept-Encoding view), a build event (response head,   *)
(* whether a writer was returned), one step event per scheduling step of    *)
(* the real code and a final event (decoder facts about the whole body).    *)
(*                                                                         *)
(* Every step is fed to Stream!ObserveStep (property predicates of the      *)
(* properties in Enforce).  With Strict = TRUE and a raw (non-gzip) writer  *)
(* the step is also replayed on the Impl model and compared field by field  *)
(* with the Probe snapshot and the results (recorded in `drift`).           *)
(***************************************************************************)
EXTENDS Stream, AcceptEncoding, Json, IOUtils

CONSTANT Strict

Rec == ndJsonDeserialize(IOEnv.TRACE)
OutFile == IOEnv.OUT

VARIABLES l, st
vars == <<l, st>>

Init0 == [case |-> 0, os |-> InitObs, c |-> [cap |-> 0], cOK |-> FALSE, gz |-> FALSE, built |-> FALSE,
          abs |-> [k |-> "absent"], level |-> 0, mclass |-> "other", writer |-> FALSE, gzhdr |-> FALSE,
          lastFlushAcc |-> -1,
          viol |-> {}, drift |-> {}, cases |-> 0, steps |-> 0]

Bad(s, ln, ids, what) == {<<s.case, ln, id, what>> : id \in ids}

\* "writev" is Write::write_vectored over three slices (2n/3 bytes, empty, the rest); the code's (default)
\* implementation is a write of the first non-empty slice
FirstSlice(n) == LET cut == (n * 2) \div 3 IN IF cut > 0 THEN cut ELSE n
ProgOf(e) == [i \in DOMAIN e.prog |-> IF e.prog[i][1] = "writev" THEN Op("write", FirstSlice(e.prog[i][2]))
                                       ELSE Op(e.prog[i][1], e.prog[i][2])]

OnReset(s, e) ==
  [Init0 EXCEPT !.case = e.case, !.viol = s.viol, !.drift = s.drift, !.cases = s.cases + 1,
                !.steps = s.steps, !.abs = e.abs, !.level = e.level, !.mclass = e.mclass,
                !.c = InitImpl(e.cap, ProgOf(e))]

\* C17 / C15 at build time
OnBuild(s, e, ln) ==
  IF e.panic THEN [s EXCEPT !.viol = s.viol \cup Bad(s, ln, Enforce \cap {"C17"}, "panic in build")]
  ELSE
  LET h == e.h
      gzHdr == h.ce.k = "val" /\ h.ce.lc = "gzip"
      ceOther == h.ce.k = "val" /\ ~gzHdr
      want == {b /\ s.level > 0 : b \in AllowedFor(s.abs)}
      c17 == \/ ~(h.vary.k = "val" /\ h.vary.lc = "accept-encoding")
             \/ ceOther
             \/ gzHdr \notin want
             \/ gzHdr # (e.sg /\ s.level > 0)      \* "as should_gzip decides", whatever the headers are
      \* HEAD: no writer, and the very headers a GET gets (which C17 pins down)
      c15 == \/ (s.mclass = "head" /\ e.writer)
             \/ (s.mclass # "head" /\ ~e.writer)
             \/ (s.mclass = "head" /\ c17)
      c0 == IF e.writer THEN s.c ELSE [s.c EXCEPT !.wd = TRUE, !.dead = TRUE, !.prog = <<>>]
  IN [s EXCEPT !.built = TRUE, !.writer = e.writer, !.gzhdr = gzHdr, !.gz = gzHdr, !.c = c0,
               !.cOK = Strict /\ ~gzHdr,
               !.viol = s.viol \cup Bad(s, ln, IF c17 THEN Enforce \cap {"C17"} ELSE {}, "coding headers")
                          \cup Bad(s, ln, IF c15 THEN Enforce \cap {"C15", "C17"} ELSE {}, "writer for HEAD / none for GET")]

DoneCore(d) == [op |-> d.op, n |-> d.n, res |-> d.res, k |-> d.k, sdrop |-> d.sdrop, buf |-> d.buf]
\* (a recorded operation: n1 is the length of the first non-empty slice of a vectored write, n otherwise)
DoneCoreE(d) == [op |-> d.op, n |-> d.n1, res |-> d.res, k |-> d.k, sdrop |-> d.sdrop, buf |-> d.buf]
RCore(r) == [res |-> r.res, n |-> r.n, fs |-> r.fs, single |-> r.single, lo |-> r.lo, up |-> r.up, eos |-> r.eos]

OnStep(s, e, ln) ==
  IF ~s.built THEN s
  ELSE IF e.t = "X"
  THEN LET ids == CASE e.cop = "stuck" ->
                         \* nobody will ever wake the consumer; if an abort is what it is missing, the
                         \* abort has been swallowed
                         \* (and without an abort the body was to end cleanly after the writer's drop: C08)
                         Enforce \cap ({"C10"} \cup (IF s.os.aborted THEN {"C11"} ELSE {"C08"}))
                    [] e.cop \in {"diverged", "maxsteps"} -> {}
                    [] OTHER -> Enforce \cap {"C08", "C10", "C11", "C20"}     \* producer panic / hang
       IN [s EXCEPT !.viol = s.viol \cup Bad(s, ln, ids, e.cop), !.cOK = FALSE]
  ELSE
  LET before == s.os.bad
      os2 == ObserveStep(s.os, e)
      new == os2.bad \ before
      \* ---- C09: after a successful flush the available frames decode to everything accepted
      flushes == {i \in DOMAIN e.done : e.done[i].op = "flush" /\ e.done[i].res = "ok"}
      c09 == /\ e.t = "P" /\ s.gz /\ flushes # {}
             /\ LET i == CHOOSE j \in flushes : \A m \in flushes : m <= j
                    f == e.fdec
                IN f.corrupt \/ ~f.header_ok \/ f.lcp # f.decoded_len \/ f.decoded_len < e.done[i].acc
      \* ---- Strict: replay on the Impl model
      isStart == e.t = "P" /\ e.site = "start"
      imp == IF ~s.cOK THEN [ok |-> FALSE, c |-> s.c]
             ELSE IF isStart
             THEN LET r == RunLocal(s.c, <<>>) IN
                  [ok |-> [i \in DOMAIN r.done |-> DoneCore(r.done[i])] = [i \in DOMAIN e.done |-> DoneCoreE(e.done[i])]
                          /\ Snap(r.c) = e.snap, c |-> r.c]
             ELSE IF e.t = "P"
             THEN IF ~PRunnable(s.c) THEN [ok |-> FALSE, c |-> s.c]
                  ELSE LET r == PStep(s.c)
                           wk == IF s.c.todo[1].m = "wake" THEN s.c.todo[1].w ELSE 0
                       IN [ok |-> /\ [i \in DOMAIN r.done |-> DoneCore(r.done[i])] = [i \in DOMAIN e.done |-> DoneCoreE(e.done[i])]
                                  /\ Snap(r.c) = e.snap /\ wk = e.wake
                                  /\ ProducerFinished(r.c) = e.pfin,
                           c |-> r.c]
             ELSE IF e.cop = "cont" THEN [ok |-> FALSE, c |-> s.c]   \* a scheduling point inside a Reader operation
             ELSE LET r == CStep(s.c, e.cop, e.w)
                  IN [ok |-> RCore(r.r) = RCore(e.r) /\ Snap(r.c) = e.snap, c |-> r.c]
  IN [s EXCEPT !.os = os2, !.steps = s.steps + 1,
               !.c = imp.c, !.cOK = s.cOK /\ imp.ok,
               !.drift = IF s.cOK /\ ~imp.ok THEN s.drift \cup {<<s.case, ln, "step">>} ELSE s.drift,
               !.viol = s.viol \cup Bad(s, ln, new, "step")
                          \cup Bad(s, ln, IF c09 THEN Enforce \cap {"C09"} ELSE {}, "flush not decodable")
                          \* a wake-up delivered while the chunker's mutex is held: a waker that polls the body
                          \* inline, or takes a lock the consumer holds while it polls, never returns -- the
                          \* consumer sleeps forever with the chunk pending
                          \cup Bad(s, ln, IF e.wake_locked THEN Enforce \cap {"C10"} ELSE {}, "wake() inside the critical section")]

OnFinal(s, e, ln) ==
  IF ~s.built THEN s
  ELSE
  LET clean == s.os.term = "end" /\ s.os.dropped /\ ~s.os.aborted /\ ~s.os.wfailed /\ s.os.calive
      member == /\ e.dec.header_ok /\ e.dec.deflate_done /\ ~e.dec.corrupt /\ e.dec.trailer
                /\ e.dec.crc_ok /\ e.dec.isize_ok /\ e.dec.trailing = 0
                /\ e.dec.decoded_len = e.accepted /\ e.dec.lcp = e.accepted
      c09 == s.gz /\ clean /\ ~member
      \* C17: the body's actual coding matches the header
      c17 == clean /\ (IF s.gzhdr THEN ~member ELSE ~e.identical)
      \* C09 also: whatever was delivered of a gzip body is a valid prefix (nothing wrong produced)
      c09b == s.gz /\ (e.dec.corrupt \/ e.dec.lcp # e.dec.decoded_len)
      \* C15: the body of a HEAD response is empty (whatever coding its headers announce) and ends cleanly
      c15 == s.mclass = "head" /\ (e.delivered # 0 \/ (e.alive /\ e.term /\ s.os.term # "end"))
  IN [s EXCEPT !.built = FALSE,
               !.viol = s.viol \cup Bad(s, ln, IF c09 \/ c09b THEN Enforce \cap {"C09"} ELSE {}, "gzip member")
                          \cup Bad(s, ln, IF c15 THEN Enforce \cap {"C15"} ELSE {}, "HEAD body not empty")
                          \cup Bad(s, ln, IF c17 THEN Enforce \cap {"C17"} ELSE {}, "body coding vs header")]

Step(s, e, ln) ==
  CASE e.ev = "reset" -> OnReset(s, e)
    [] e.ev = "build" -> OnBuild(s, e, ln)
    [] e.ev = "step" -> OnStep(s, e, ln)
    [] e.ev = "final" -> OnFinal(s, e, ln)
    [] e.ev = "stress" ->
         \* free-running threads (no baton): only logically decidable facts are recorded
         [s EXCEPT !.cases = s.cases + 1,
                   !.viol = s.viol
                      \cup {<<e.case, ln, id, "lost wake-up / no progress in free-running stress">> :
                               id \in IF e.stuck > 0 THEN Enforce \cap {"C10"} ELSE {}}
                      \cup {<<e.case, ln, id, "a wake-up issued from inside another body's wake-up (inline tee) is lost">> :
                               id \in IF e.nested_lost > 0 THEN Enforce \cap {"C10"} ELSE {}}
                      \cup {<<e.case, ln, id, "wrong bytes or wrong terminal event in free-running stress">> :
                               id \in IF e.mismatch > 0 THEN Enforce \cap {"C08", "C11"} ELSE {}}
                      \cup {<<e.case, ln, id, "panic in free-running stress">> :
                               id \in IF e.panics > 0 THEN Enforce \cap {"C20", "C10"} ELSE {}}
                      \cup {<<e.case, ln, id, "flush returned Ok with private bytes / write accepted nothing (stress)">> :
                               id \in IF e.flush_private > 0 \/ e.write_zero > 0 THEN Enforce \cap {"C08", "C09"} ELSE {}}
                      \cup {<<e.case, ln, id, "write/flush succeeded after the body was dropped, or queue kept (stress)">> :
                               id \in IF e.ok_after_drop > 0 THEN Enforce \cap {"C11"} ELSE {}}
                      \cup {<<e.case, ln, id, "is_end_stream() true, then data or an error (stress)">> :
                               id \in IF e.eos_then_more > 0 THEN Enforce \cap {"C12", "C11"} ELSE {}}]
    [] OTHER -> s

Init == l = 1 /\ st = Init0

RECURSIVE SetToSeqLocal(_)
SetToSeqLocal(S) == IF S = {} THEN <<>> ELSE LET x == CHOOSE y \in S : TRUE IN <<x>> \o SetToSeqLocal(S \ {x})

Next ==
  \/ /\ l <= Len(Rec)
     /\ st' = Step(st, Rec[l], l)
     /\ l' = l + 1
  \/ /\ l = Len(Rec) + 1
     /\ ndJsonSerialize(OutFile, <<[events |-> Len(Rec), cases |-> st.cases, steps |-> st.steps,
                                    viol |-> SetToSeqLocal(st.viol), drift |-> SetToSeqLocal(st.drift)]>>)
     /\ l' = l + 1
     /\ st' = st

Spec == Init /\ [][Next]_vars
Accepted == TLCGet("stats").diameter = Len(Rec) + 2
=============================================================================
