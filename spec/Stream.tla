------------------------------- MODULE Stream -------------------------------
(***************************************************************************)
(* Specification of streaming bodies: BodyWriter (gzip.rs, raw variant)    *)
(* over chunker::{Writer, Reader} (chunker.rs), at the granularity of the   *)
(* code's critical sections.                                                *)
(*                                                                         *)
(* Part 1  Impl: the producer is a fixed program of BodyWriter operations;  *)
(*         every operation is a short list of micro-steps, one per          *)
(*         synchronisation site of the code (the mutex section of           *)
(*         flush_helper / abort, the wake() call after it); the consumer    *)
(*         performs one whole Reader operation per step (each has exactly   *)
(*         one mutex section).  A *step* is what one thread does between    *)
(*         two scheduling points (yield points of the verif-hooks feature). *)
(* Part 2  the observation history `os` and the property predicates of      *)
(*         C08, C10, C11, C12, C20 over it, transcribed from the property   *)
(*         statements.  The model checker feeds it the Impl's steps         *)
(*         (StreamMC), trace validation the recorded steps of the real code *)
(*         (StreamTrace).                                                   *)
(***************************************************************************)
EXTENDS Integers, Sequences, FiniteSets, TLC

CONSTANT Enforce

(***************************************************************************)
(* Part 1: Impl                                                            *)
(***************************************************************************)
\* Producer operations: write(n) | flush | abort | drop | wait (until everything published so
\* far has been delivered -- a scheduling condition, not a BodyWriter call)
Op(o, n) == [op |-> o, n |-> n]

\* micro-steps of the operation in flight (head = next scheduling point)
Micro(m, dropping, onfail, w, res, k) ==
  [m |-> m, dropping |-> dropping, onfail |-> onfail, w |-> w, res |-> res, k |-> k]
MFlush(dropping, onfail) == Micro("flushcs", dropping, onfail, 0, "", 0)
MAbort == Micro("abortcs", FALSE, "", 0, "", 0)
MWake(w) == Micro("wake", FALSE, "", w, "", 0)
MWait == Micro("wait", FALSE, "", 0, "", 0)
\* the point just after wake() returned: an eager waker may have run the consumer inside wake(),
\* or the producer may be preempted there
MAfterWake == Micro("afterwake", FALSE, "", 0, "", 0)
MRet(res, k) == Micro("ret", FALSE, "", 0, res, k)

NoOp == Op("none", 0)

InitImpl(cap, prog) ==
  [ cap |-> cap,
    \* ---- shared (under the mutex): state, queue of chunks [s: offset, n: length], counters
    st |-> "ok", ready |-> <<>>, rb |-> 0, wd |-> FALSE, wk |-> 0,
    \* ---- producer-private
    prog |-> prog, cur |-> NoOp, sdrop |-> FALSE, todo |-> <<>>, buf |-> 0, dead |-> FALSE,
    acc |-> 0,                 \* bytes reported accepted by write
    pub |-> 0,                 \* bytes published to the queue
    \* ---- consumer-private
    alive |-> TRUE, park |-> 0, woken |-> {}, del |-> 0 ]

\* local part of starting operation o: the micro-steps it needs (ends with a "ret")
Expand(c, o) ==
  CASE o.op = "write" ->
         IF c.dead THEN [c2 |-> c, todo |-> <<MRet("err", 0)>>]
         ELSE LET room == c.cap - c.buf
                  k == IF o.n < room THEN o.n ELSE room
                  c2 == [c EXCEPT !.buf = c.buf + k]
              IN IF c2.buf = c.cap
                 THEN [c2 |-> c2, todo |-> <<MFlush(FALSE, "die"), MRet("ok", k)>>]
                 ELSE [c2 |-> c2, todo |-> <<MRet("ok", k)>>]
    [] o.op = "flush" ->
         IF c.dead THEN [c2 |-> c, todo |-> <<MRet("err", 0)>>]
         ELSE IF c.buf = 0 THEN [c2 |-> c, todo |-> <<MRet("ok", 0)>>]
         ELSE [c2 |-> c, todo |-> <<MFlush(FALSE, "die"), MRet("ok", 0)>>]
    [] o.op = "abort" ->
         IF c.dead THEN [c2 |-> c, todo |-> <<MRet("ok", 0)>>]
         ELSE [c2 |-> [c EXCEPT !.dead = TRUE], todo |-> <<MAbort, MFlush(TRUE, "ignore"), MRet("ok", 0)>>]
    [] o.op = "drop" ->
         IF c.dead THEN [c2 |-> c, todo |-> <<MRet("ok", 0)>>]
         ELSE [c2 |-> [c EXCEPT !.dead = TRUE], todo |-> <<MFlush(TRUE, "ignore"), MRet("ok", 0)>>]
    [] o.op = "wait" -> [c2 |-> c, todo |-> <<MWait, MRet("ok", 0)>>]

\* Run the producer's local code up to its next scheduling point.  Returns [c, done]: done is
\* the sequence of operation results completed on the way.
RECURSIVE RunLocal(_, _)
RunLocal(c, done) ==
  IF Len(c.todo) > 0
  THEN IF c.todo[1].m = "ret"
       THEN LET r == c.todo[1]
                c2 == [c EXCEPT !.todo = Tail(c.todo), !.cur = NoOp,
                                !.acc = IF c.cur.op = "write" /\ r.res = "ok" THEN c.acc + r.k ELSE c.acc]
            IN RunLocal(c2, Append(done, [op |-> c.cur.op, n |-> c.cur.n, res |-> r.res, k |-> r.k,
                                          sdrop |-> c.sdrop, buf |-> IF c.dead THEN -1 ELSE c.buf]))
       ELSE [c |-> c, done |-> done]
  ELSE IF Len(c.prog) = 0 THEN [c |-> c, done |-> done]
  ELSE LET o == c.prog[1]
           e == Expand(c, o)
       IN RunLocal([e.c2 EXCEPT !.prog = Tail(c.prog), !.cur = o, !.sdrop = ~c.alive, !.todo = e.todo], done)

ProducerFinished(c) == Len(c.todo) = 0 /\ Len(c.prog) = 0

\* the producer's pending scheduling point
PSite(c) == IF Len(c.todo) = 0 THEN "none" ELSE c.todo[1].m

PRunnable(c) == /\ PSite(c) # "none"
                /\ (PSite(c) = "wait") => (c.del >= c.pub \/ ~c.alive \/ c.st # "ok")

\* one producer step: the pending micro-step, then local code up to the next one
PStep(c) ==
  LET m == c.todo[1]
      rest == Tail(c.todo)
      c1 ==
        CASE m.m = "flushcs" ->
               IF c.st = "ok"
               THEN LET pubd == IF c.buf > 0
                                THEN [c EXCEPT !.ready = Append(c.ready, [s |-> c.pub, n |-> c.buf]),
                                               !.rb = c.rb + c.buf, !.pub = c.pub + c.buf, !.buf = 0]
                                ELSE c
                    IN [pubd EXCEPT !.wd = m.dropping, !.wk = 0,
                                    !.todo = IF c.wk # 0 THEN <<MWake(c.wk)>> \o rest ELSE rest]
               ELSE IF c.buf > 0 /\ m.onfail = "die"
               THEN \* BrokenPipe: BodyWriter goes dead and drops the chunk writer (flush_helper(true))
                    [c EXCEPT !.dead = TRUE, !.todo = <<MFlush(TRUE, "ignore"), MRet("err", 0)>>]
               ELSE [c EXCEPT !.todo = rest]
          [] m.m = "abortcs" ->
               IF c.st = "ok"
               THEN [c EXCEPT !.ready = <<>>, !.rb = 0, !.wd = FALSE, !.st = "err", !.wk = 0,
                              !.todo = IF c.wk # 0 THEN <<MWake(c.wk)>> \o rest ELSE rest]
               ELSE [c EXCEPT !.todo = rest]
          [] m.m = "wake" -> [c EXCEPT !.woken = c.woken \cup {m.w}, !.todo = <<MAfterWake>> \o rest]
          [] m.m = "afterwake" -> [c EXCEPT !.todo = rest]
          [] m.m = "wait" -> [c EXCEPT !.todo = rest]
  IN RunLocal(c1, <<>>)

\* one consumer step: a whole Reader operation.  Returns [c, r] with r the result record.
NoRes == [res |-> "", n |-> 0, fs |-> 0, single |-> TRUE, lo |-> 0, up |-> -1, eos |-> FALSE]
CStep(c, op, w) ==
  CASE op = "poll" ->
         LET c0 == [c EXCEPT !.woken = c.woken \ {c.park}, !.park = 0] IN
         IF c.st = "ok"
         THEN IF Len(c.ready) > 0
              THEN LET ch == c.ready[1]
                       rdy == Tail(c.ready)
                       last == Len(rdy) = 0 /\ c.wd
                   IN [c |-> [c0 EXCEPT !.ready = rdy, !.rb = c.rb - ch.n, !.del = c.del + ch.n,
                                        !.st = IF last THEN "fused" ELSE "ok",
                                        !.wd = IF last THEN FALSE ELSE c.wd],
                       r |-> [NoRes EXCEPT !.res = "data", !.n = ch.n, !.fs = ch.s % 251]]
              ELSE IF ~c.wd
              THEN [c |-> [c0 EXCEPT !.wk = w, !.park = w], r |-> [NoRes EXCEPT !.res = "pending"]]
              ELSE [c |-> [c0 EXCEPT !.st = "fused", !.wd = FALSE], r |-> [NoRes EXCEPT !.res = "end"]]
         ELSE IF c.st = "err"
         THEN [c |-> [c0 EXCEPT !.st = "fused"], r |-> [NoRes EXCEPT !.res = "err"]]
         ELSE [c |-> c0, r |-> [NoRes EXCEPT !.res = "end"]]
    [] op = "hint" ->
         [c |-> c, r |-> IF c.st = "ok"
                         THEN [NoRes EXCEPT !.res = "hint", !.lo = c.rb, !.up = IF c.wd THEN c.rb ELSE -1]
                         ELSE [NoRes EXCEPT !.res = "hint"]]
    [] op = "eos" ->
         [c |-> c, r |-> [NoRes EXCEPT !.res = "eos",
                                       !.eos = CASE c.st = "ok" -> c.rb = 0 /\ c.wd
                                                 [] c.st = "err" -> FALSE
                                                 [] OTHER -> TRUE]]
    [] op = "drop" ->
         [c |-> [c EXCEPT !.st = "fused", !.ready = <<>>, !.rb = 0, !.wd = FALSE, !.wk = 0,
                          !.alive = FALSE, !.park = 0],
          r |-> [NoRes EXCEPT !.res = "dropped"]]

\* the shared state as the Probe reports it
Snap(c) == [st |-> c.st, ready |-> [i \in DOMAIN c.ready |-> c.ready[i].n], rb |-> c.rb, wd |-> c.wd,
            wk |-> c.wk]

(***************************************************************************)
(* Part 2: observation history and property predicates                      *)
(* A step observation e:                                                    *)
(*   t        "P" (producer step) | "C" (consumer step) | "X" (harness)     *)
(*   done     <<[op, n, res, k, sdrop, buf]...>> producer operations        *)
(*            completed in this step (sdrop: the body was already dropped   *)
(*            when the operation started; buf: bytes in the writer's        *)
(*            private buffer when it returned, -1 if the writer is dead)    *)
(*   wake     waker woken in this step (0: none)                            *)
(*   cop, w   consumer operation and the waker it presented                 *)
(*   r        result record (res, n, fs, single, lo, up, eos)               *)
(*   inflight bytes offered by a write that has not returned yet            *)
(*   curop    the producer operation in flight ("none" if between calls)    *)
(*   snap     shared state after the step; pfin: producer program finished  *)
(*   buffered bytes in the writer's private buffer after the step (-1 dead) *)
(*   cap      chunk size; gz: gzip writer (byte-exact clauses do not apply) *)
(***************************************************************************)
InitObs ==
  [ acc |-> 0,            \* bytes write() reported as accepted
    del |-> 0,            \* bytes delivered in data frames
    term |-> "none",      \* first terminal event of the body
    aborted |-> FALSE,    \* abort() completed on a writer that was alive
    dropped |-> FALSE,    \* writer dropped (clean finish requested)
    wfailed |-> FALSE,    \* some write/flush returned an error
    calive |-> TRUE,      \* body (consumer half) not yet dropped
    lastBuf |-> 0,        \* bytes in the writer's private buffer after the last completed operation
    flushed |-> 0,        \* bytes known to have been published
    park |-> 0, woken |-> {},
    eosSaid |-> FALSE,
    probes |-> <<>>,      \* <<lo, up, delivered-at>>
    tail |-> -1,          \* non-terminal polls still allowed once the writer is gone: at most one per
                          \* queued byte (-1: n/a)
    bad |-> {} ]

Deliverable(snap) == snap.st = "err" \/ (snap.st = "ok" /\ (Len(snap.ready) > 0 \/ snap.wd))

\* failures of the producer results in e.done, processed in order against a running history
RECURSIVE DoneFailures(_, _, _, _)
DoneFailures(os, done, i, e) ==
  IF i > Len(done) THEN [os |-> os, bad |-> {}]
  ELSE
  LET d == done[i]
      isW == d.op = "write"
      isF == d.op = "flush"
      live == ~os.aborted /\ ~os.dropped /\ ~os.wfailed /\ os.calive
      acc2 == IF isW /\ d.res = "ok" THEN os.acc + d.k ELSE os.acc
      last == i = Len(done)
      \* the private buffer did not simply grow by k: the write tried to publish a chunk
      \* (or it grew right up to the chunk size: the chunk is complete, whether or not it got published)
      completes == ~e.gz /\ os.lastBuf >= 0 /\ (d.buf # os.lastBuf + d.k \/ os.lastBuf + d.k >= e.cap)
      bad ==
        {id \in Enforce :
           \* C08: a write of a non-empty buffer to a live body accepts at least one byte
           \/ id = "C08" /\ isW /\ d.n > 0 /\ live /\ ~d.sdrop /\ ~(d.res = "ok" /\ d.k >= 1)
           \/ id = "C08" /\ isW /\ d.res = "ok" /\ d.k > d.n
           \* C08: after flush returns, everything accepted is available without the producer
           \/ id = "C08" /\ ~e.gz /\ isF /\ d.res = "ok" /\ last /\ os.calive /\ e.snap.st = "ok"
                 /\ ~(acc2 = os.del + e.snap.rb /\ d.buf = 0)
           \* C08 / C09: a write or flush never fails while the body is alive and nothing was aborted (the
           \* writer would be dead from then on: the body could not be what the property promises)
           \/ id = "C08" /\ ~e.gz /\ (isW \/ isF) /\ d.res = "err" /\ live /\ ~d.sdrop
           \/ id = "C09" /\ e.gz /\ (isW \/ isF) /\ d.res = "err" /\ live /\ ~d.sdrop
           \* C11: after abort, and after a first error, every later write/flush fails
           \/ id = "C11" /\ (os.aborted \/ os.wfailed) /\ (isW \/ isF) /\ d.res # "err"
           \* C11: once the body is gone, flush of unflushed bytes and chunk-completing writes fail
           \/ id = "C11" /\ d.sdrop /\ isF /\ d.res = "ok" /\ (e.gz \/ os.lastBuf > 0)
           \/ id = "C11" /\ d.sdrop /\ isW /\ d.res = "ok" /\ completes
        }
      os2 == [os EXCEPT !.acc = acc2,
                        !.aborted = os.aborted \/ (d.op = "abort" /\ ~os.dropped /\ ~os.wfailed /\ ~os.aborted),
                        !.dropped = os.dropped \/ d.op = "drop",
                        !.wfailed = os.wfailed \/ ((isW \/ isF) /\ d.res = "err"),
                        !.lastBuf = d.buf]
      rest == DoneFailures(os2, done, i + 1, e)
  IN [os |-> rest.os, bad |-> bad \cup rest.bad]

StepFailures(os, e) ==
  LET r == e.r
      isPoll == e.t = "C" /\ e.cop = "poll"
      del2 == IF isPoll /\ r.res = "data" THEN os.del + r.n ELSE os.del
      firstTerminal == isPoll /\ os.term = "none" /\ r.res \in {"end", "err"}
      cont == r.single /\ r.fs = os.del % 251
      \* abort() called (completed, or in flight: its effects may already be visible)
      ab == os.aborted \/ e.curop = "abort"
  IN
  {id \in Enforce :
     \* ---- C08: exactly the accepted bytes, once, in order, in non-empty frames, then a clean end
     \/ id = "C08" /\ ~e.gz /\ isPoll /\ r.res = "data" /\ (~cont \/ del2 > os.acc + e.inflight)
     \/ id = "C08" /\ isPoll /\ r.res = "data" /\ r.n = 0
     \/ id = "C08" /\ ~e.gz /\ firstTerminal /\ r.res = "end" /\ ~ab /\ ~os.wfailed /\ del2 # os.acc
     \/ id = "C08" /\ firstTerminal /\ r.res = "err" /\ ~ab
     \* ---- C10: woken whenever something is deliverable; everything flushed before a clean end;
     \* ----      the end or the error within a bounded number of polls once the writer is gone
     \/ id = "C10" /\ e.t = "P" /\ Len(e.done) > 0 /\ os.park # 0 /\ os.calive /\ Deliverable(e.snap)
           /\ ~(os.park \in os.woken \/ e.wake = os.park)
     \/ id = "C10" /\ e.t = "X" /\ e.cop = "stuck"
     \/ id = "C10" /\ firstTerminal /\ r.res = "end" /\ ~ab /\ del2 < os.flushed
     \/ id = "C10" /\ isPoll /\ os.term = "none" /\ os.tail = 0 /\ r.res \notin {"end", "err"}
     \* ---- C11: abort is an error, never a clean end; delivered bytes a prefix of the written
     \* ----      ones; no end-of-stream claim while the error is pending; queue released on drop
     \/ id = "C11" /\ firstTerminal /\ ab /\ r.res = "end"
     \/ id = "C11" /\ ~e.gz /\ isPoll /\ r.res = "data" /\ (~cont \/ del2 > os.acc + e.inflight)
     \/ id = "C11" /\ e.t = "C" /\ e.cop = "eos" /\ r.eos /\ e.snap.st = "err"
     \/ id = "C11" /\ (~os.calive \/ (e.t = "C" /\ e.cop = "drop")) /\ Len(e.snap.ready) > 0
     \* ---- C12: hints and the end-of-stream flag
     \/ id = "C12" /\ e.t = "C" /\ e.cop = "eos" /\ r.eos /\ (Len(e.snap.ready) > 0 \/ e.snap.st = "err")
     \/ id = "C12" /\ isPoll /\ os.eosSaid /\ (r.res = "err" \/ (r.res = "data" /\ r.n > 0))
     \/ id = "C12" /\ firstTerminal /\ r.res = "end" /\
           \E j \in DOMAIN os.probes :
              LET pr == os.probes[j] IN pr[1] > del2 - pr[3] \/ (pr[2] >= 0 /\ pr[2] < del2 - pr[3])
     \* ---- C20: terminated bodies stay terminated
     \/ id = "C20" /\ isPoll /\ os.term # "none" /\ r.res = "data" /\ r.n > 0
     \/ id = "C20" /\ r.res = "panic"
  }

ObserveStep(os, e) ==
  LET r == e.r
      isPoll == e.t = "C" /\ e.cop = "poll"
      isCDrop == e.t = "C" /\ e.cop = "drop"
      df == IF e.t = "P" THEN DoneFailures(os, e.done, 1, e) ELSE [os |-> os, bad |-> {}]
      os1 == df.os
      sf == StepFailures(os, e)
      gone2 == os1.dropped \/ os1.aborted
      del2 == IF isPoll /\ r.res = "data" THEN os.del + r.n ELSE os.del
  IN [os1 EXCEPT
        !.del = del2,
        !.term = IF isPoll /\ os.term = "none" /\ r.res \in {"end", "err"} THEN r.res ELSE os.term,
        !.calive = os.calive /\ ~isCDrop,
        !.park = IF isPoll THEN (IF r.res = "pending" THEN e.w ELSE 0)
                 ELSE IF isCDrop THEN 0 ELSE os.park,
        !.woken = (IF isPoll THEN os.woken \ {os.park} ELSE os.woken)
                    \cup (IF e.wake # 0 THEN {e.wake} ELSE {}),
        !.eosSaid = os.eosSaid \/ (e.t = "C" /\ e.cop = "eos" /\ r.eos),
        !.probes = IF e.t = "C" /\ e.cop = "hint" THEN Append(os.probes, <<r.lo, r.up, os.del>>)
                   ELSE os.probes,
        !.flushed = IF e.t = "P" /\ e.snap.st = "ok" /\ ~e.gz /\ os.del + e.snap.rb > os.flushed
                    THEN os.del + e.snap.rb ELSE os.flushed,
        !.tail = IF os.term # "none" \/ ~os.calive \/ isCDrop THEN -1
                 ELSE IF isPoll /\ os.tail > 0 THEN os.tail - 1
                 ELSE IF e.t = "P" /\ gone2 /\ e.pfin /\ os.tail = -1 THEN e.snap.rb   \* every data frame has >= 1 byte
                 ELSE os.tail,
        !.bad = os.bad \cup df.bad \cup sf]

=============================================================================
