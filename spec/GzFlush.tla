------------------------------ MODULE GzFlush ------------------------------
(***************************************************************************)
(* The buffering layers between BodyWriter (gzip) and the chunk writer:     *)
(*                                                                         *)
(*   BodyWriter::write/flush/drop  (gzip.rs)                                *)
(*     -> flate2::write::GzEncoder / zio::Writer  (a 32 KiB buffer `fbuf`,  *)
(*        `dump` = write the buffer to the chunk writer)                    *)
(*       -> the deflate compressor (miniz_oxide): look-ahead bytes not yet  *)
(*          compressed (`look`, < LookMax) and compressed output that did    *)
(*          not fit into the caller's buffer (`pend`)                       *)
(*                                                                         *)
(* Bytes are tokens: "d" one byte of data (the model compresses 1:1, the    *)
(* incompressible case), "m" a sync marker, "t" the trailer.  The point of  *)
(* the model is the *flush protocol*: zio::Writer::flush passes the sync    *)
(* request to the compressor once and then pulls with "no flush" until no   *)
(* more output appears; the compressor forgets a sync request whenever it   *)
(* cannot finish it within the caller's buffer, and ignores it altogether   *)
(* while older output is pending.  That loses the flush (defect F10,        *)
(* DESIGN.md 8.3).  `fixed` selects BodyWriter::flush as repaired (repeat   *)
(* while a full buffer's worth was written out).                            *)
(*                                                                         *)
(* Everything is sequential (one producer thread), so the algorithms are    *)
(* written as operators over the state record; the compressor's freedom to  *)
(* stop early is a set of outcomes.                                         *)
(***************************************************************************)
EXTENDS Integers, Sequences, FiniteSets, TLC

CONSTANTS Cap,        \* capacity of flate2's buffer (32 KiB in reality)
          LookMax,    \* with "no flush" the compressor keeps up to LookMax - 1 bytes of look-ahead (258)
          InMax,      \* most input one compressor call consumes (its dictionary)
          MaxAcc,     \* bound: accepted bytes
          MaxOps,     \* bound: operations of one program
          WriteSizes  \* sizes offered to write

Min2(a, b) == IF a < b THEN a ELSE b
Rep(x, n) == [i \in 1..n |-> x]
Count(q, x) == Cardinality({i \in DOMAIN q : q[i] = x})
Take(q, n) == SubSeq(q, 1, n)
Drop(q, n) == SubSeq(q, n + 1, Len(q))

Init0(fixed) ==
  [fixed |-> fixed, look |-> 0, pend |-> <<>>, fbuf |-> <<>>, out |-> <<>>, acc |-> 0, tout |-> 0,
   fin |-> FALSE,      \* the compressor has written its trailer
   dead |-> FALSE, last |-> "none", lastOut |-> 0, passes |-> 0, ops |-> 0]

\* ---- flate2: write the buffer to the chunk writer (which accepts everything: infinitely buffered)
Dump(s) == [s EXCEPT !.out = s.out \o s.fbuf, !.fbuf = <<>>]

\* ---- the compressor: offered n input bytes, output space Cap - Len(fbuf), mode in {"none","sync","finish"}.
\* Set of possible [st, used].
Run(s, n, mode) ==
  LET space == Cap - Len(s.fbuf)
      Emit(st, produced) ==
        LET q == st.pend \o produced
            m == Min2(Len(q), space)
        IN [st EXCEPT !.fbuf = st.fbuf \o Take(q, m), !.pend = Drop(q, m), !.tout = st.tout + m]
  IN IF Len(s.pend) > 0
     THEN \* older output pending: the call only drains; input is not consumed, the mode is forgotten
          {[st |-> Emit(s, <<>>), used |-> 0]}
     ELSE IF s.fin THEN {[st |-> s, used |-> 0]}
     ELSE LET take == Min2(n, InMax)
              look1 == s.look + take
              keep == IF mode = "none" THEN Min2(look1, LookMax - 1) ELSE 0
              conv == look1 - keep
              tail == IF mode = "sync" THEN <<"m">> ELSE IF mode = "finish" THEN <<"t">> ELSE <<>>
              complete == [st |-> Emit([s EXCEPT !.look = keep, !.acc = s.acc + take, !.fin = (mode = "finish")],
                                       Rep("d", conv) \o tail),
                           used |-> take]
              \* a block that does not fit into the caller's buffer ends the call early: the rest of the
              \* look-ahead stays, no marker, request forgotten (only possible when flushing: otherwise
              \* `keep` is what stays anyway)
              early == {[st |-> Emit([s EXCEPT !.look = look1 - c, !.acc = s.acc + take], Rep("d", c)), used |-> take] :
                          c \in {c \in 1..(look1 - 1) : c > space}}
          IN {complete} \cup (IF mode = "sync" THEN early ELSE {})

\* ---- zio::Writer::write (one call of BodyWriter::write): dump, run once; repeat if nothing was consumed
RECURSIVE ZWrite(_, _)
ZWrite(s, n) ==
  LET s1 == Dump(s)
      r == CHOOSE x \in Run(s1, n, "none") : TRUE     \* (deterministic in mode "none")
  IN IF n > 0 /\ r.used = 0 THEN ZWrite(r.st, n) ELSE r

\* ---- zio::Writer::flush: sync once (before dumping!), then pull with "none" until no more output
RECURSIVE Pull(_)
Pull(s) ==
  LET s1 == Dump(s)
      r == CHOOSE x \in Run(s1, 0, "none") : TRUE
  IN IF r.st.tout = s1.tout THEN r.st ELSE Pull(r.st)
ZFlush(s) == {Pull(r.st) : r \in Run(s, 0, "sync")}

\* ---- zio::Writer::finish (drop): run with "finish" until no more output
RECURSIVE ZFinish(_)
ZFinish(s) ==
  LET s1 == Dump(s)
      r == CHOOSE x \in Run(s1, 0, "finish") : TRUE
  IN IF r.st.tout = s1.tout THEN r.st ELSE ZFinish(r.st)

\* ---- BodyWriter::flush.  As repaired: again while the pass wrote out at least a full buffer.
RECURSIVE BFlush(_, _)
BFlush(s, k) ==
  UNION {IF s.fixed /\ Len(t.out) - Len(s.out) >= Cap /\ k < 8
         THEN BFlush([t EXCEPT !.passes = t.passes + 1], k + 1)
         ELSE {[t EXCEPT !.passes = t.passes + 1]} : t \in ZFlush(s)}

Complete(s) == s.look = 0 /\ s.pend = <<>> /\ s.fbuf = <<>>
Data(q) == Count(q, "d")

\* ---- what the properties need
\* C09, second sentence: after flush returns everything accepted is in what the chunk writer has
FlushComplete(s) == (s.last = "flush") => /\ Complete(s) /\ Data(s.out) = s.acc
\* C09, first sentence (the part this layer is responsible for): after drop the output is all the
\* data followed by exactly one trailer, nothing after it
FinishComplete(s) == (s.last = "drop") =>
   /\ Complete(s) /\ Data(s.out) = s.acc /\ Count(s.out, "t") = 1 /\ s.out[Len(s.out)] = "t"
\* nothing is lost, duplicated or reordered on the way (data in buffers is a suffix of what is accepted)
Conserved(s) == Data(s.out) + Data(s.fbuf) + Data(s.pend) + s.look = s.acc
\* why the repaired loop condition is sound: a pass of flate2's flush that leaves something behind has
\* written out at least a full buffer
PassLemma(s) == \A t \in ZFlush(s) : ~Complete(t) => Len(t.out) - Len(s.out) >= Cap
=============================================================================
