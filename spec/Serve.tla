------------------------------- MODULE Serve -------------------------------
(***************************************************************************)
(* Specification of http_serve::serve and of the bodies it returns.        *)
(*                                                                         *)
(* Part 1: abstract semantics -- the properties C01..C07, C12..C15, C20 as *)
(*         predicates over (request, entity, observed head / body history) *)
(*         transcribed from the property statements, not from the code.    *)
(* Part 2: the observation history `bs` (announced, delivered, terminal,   *)
(*         per-call entity accounting, hint probes) and its update         *)
(*         function Observe, shared by the model checker and by trace      *)
(*         validation.                                                     *)
(* Part 3: Impl -- a model of what the code does (serving.rs, body.rs),    *)
(*         one operator per decision stage / poll step.  TLC checks that   *)
(*         Impl satisfies Part 1 on bounded case sets (ServeMC) and that   *)
(*         the real code's traces satisfy Part 1 and match Impl            *)
(*         (ServeTrace).                                                   *)
(*                                                                         *)
(* Numbers are limb triples (module U64).  Every property constraint is    *)
(* wrapped in Req(id, P) so that a check enforces exactly one property.    *)
(***************************************************************************)
EXTENDS U64, FiniteSets, TLC

CONSTANTS Enforce,        \* set of property ids whose constraints are enforced
          PartEstimate    \* the RFC's per-part overhead estimate (80 in the code)

Req(id, P) == (id \in Enforce) => P

None == [k |-> "none"]

(***************************************************************************)
(* Part 1a: validators (C04, C05)                                          *)
(***************************************************************************)
StrongEqT(t, e) == e.k = "tag" /\ ~t.w /\ ~e.w /\ t.op = e.op
WeakEqT(t, e) == e.k = "tag" /\ t.op = e.op

\* every conditional header is absent or well-formed
WFCond(abs) == /\ abs.im.k # "garbage" /\ abs.inm.k # "garbage"
               /\ abs.ims.k # "garbage" /\ abs.ius.k # "garbage"

\* C04, first sentence
PreconditionFailed(abs, ent) ==
  IF abs.im.k # "none"
  THEN abs.im.k = "list" /\ ~\E i \in DOMAIN abs.im.tags : StrongEqT(abs.im.tags[i], ent.etag)
  ELSE abs.ius.k = "date" /\ ent.mt.k = "t" /\ abs.ius.s < ent.mt.s

\* C04, second sentence (evaluated only when no 412 is due)
NotModified(abs, ent) ==
  IF abs.inm.k # "none"
  THEN \/ abs.inm.k = "star"
       \/ abs.inm.k = "list" /\ \E i \in DOMAIN abs.inm.tags : WeakEqT(abs.inm.tags[i], ent.etag)
  ELSE abs.ims.k = "date" /\ ent.mt.k = "t" /\ ent.mt.s <= abs.ims.s

\* C05: "yes" (Range honoured), "no" (must be ignored), "free" (date equal to Last-Modified)
IfRangeVerdict(abs, ent) ==
  CASE abs.ifr.k = "none" -> "yes"
    [] abs.ifr.k = "tag" -> IF StrongEqT(abs.ifr, ent.etag) THEN "yes" ELSE "no"
    [] abs.ifr.k = "date" -> IF ent.mt.k = "t" /\ abs.ifr.s = ent.mt.s THEN "free" ELSE "no"
    [] OTHER -> "no"

(***************************************************************************)
(* Part 1b: ranges (C03)                                                   *)
(***************************************************************************)
\* one spec against length L: the sequence of 0 or 1 closed intervals it selects
ResolveSpec(L, s) ==
  CASE s.k = "fl" -> IF Lt(s.a, L) /\ Le(s.a, s.b)
                     THEN <<[a |-> s.a, b |-> Min(s.b, Pred(L))]>> ELSE <<>>
    [] s.k = "f"  -> IF Lt(s.a, L) THEN <<[a |-> s.a, b |-> Pred(L)]>> ELSE <<>>
    [] s.k = "s"  -> IF IsZero(s.n) \/ IsZero(L) THEN <<>>
                     ELSE <<[a |-> Sub(L, Min(s.n, L)), b |-> Pred(L)]>>

RECURSIVE ResolveFrom(_, _, _)
ResolveFrom(L, specs, i) ==
  IF i > Len(specs) THEN <<>> ELSE ResolveSpec(L, specs[i]) \o ResolveFrom(L, specs, i + 1)
Resolve(L, specs) == ResolveFrom(L, specs, 1)

\* sums with u64 overflow detection: [v |-> limbs, of |-> overflowed]
RECURSIVE SumSizes(_, _, _)
SumSizes(R, i, extra) ==
  IF i > Len(R) THEN [v |-> Zero, of |-> FALSE]
  ELSE LET rest == SumSizes(R, i + 1, extra)
           s == Add(Add(rest.v, Size(R[i].a, R[i].b)), N(extra))
       IN IF rest.of \/ ~IsU64(s) THEN [v |-> Zero, of |-> TRUE] ELSE [v |-> s, of |-> FALSE]

\* "multipart at least whenever the ranges plus 80 bytes of overhead each total under half
\*  the entity"
MustMultipart(L, R) ==
  LET s == SumSizes(R, 1, PartEstimate) IN ~s.of /\ Lt(Add(s.v, s.v), L)
\* "and never when the ranges alone total L or more"
MustNotMultipart(L, R) ==
  LET s == SumSizes(R, 1, 0) IN s.of \/ Le(L, s.v)

NoRange == [k |-> "none"]

\* The readings of the Range header that the property allows.  "ignored": other unit or
\* outside the grammar; "set" with free = TRUE: a reading the property leaves open (a spec with
\* last < first, a number >= 2^64): either the RFC reading or "header ignored".
RangeReadings(r) ==
  CASE r.k = "none" -> {NoRange}
    [] r.k = "ignored" -> {NoRange}
    [] r.k = "set" -> IF r.free THEN {NoRange, [k |-> "set", specs |-> r.specs]}
                      ELSE {[k |-> "set", specs |-> r.specs]}
    [] OTHER -> {}          \* garbage: no claim (callers test for it)

\* readings after the If-Range gate
EffectiveReadings(abs, ent) ==
  LET v == IfRangeVerdict(abs, ent) IN
  CASE v = "yes" -> RangeReadings(abs.range)
    [] v = "no" -> {NoRange}
    [] OTHER -> RangeReadings(abs.range) \cup {NoRange}

\* shape of the response a reading denotes
ShapeOf(L, r) ==
  IF r.k = "none" THEN [k |-> "full", parts |-> <<>>]
  ELSE LET R == Resolve(L, r.specs) IN
       CASE Len(R) = 0 -> [k |-> "unsat", parts |-> <<>>]
         [] Len(R) = 1 -> [k |-> "single", parts |-> R]
         [] OTHER -> [k |-> "multi", parts |-> R]

\* the kind of response a head shows
ObsKind(h) ==
  CASE h.status = 200 /\ h.cr.k = "none" -> "full"
    [] h.status = 416 -> "unsat"
    [] h.status = 206 /\ h.ct.k = "multipart" -> "multi"
    [] h.status = 206 -> "single"
    [] OTHER -> "other"

\* byte length of a part header, recomputed from decimal widths (blen: boundary length,
\* hl: bytes of the entity's header lines inside each part)
PartHeaderLen(a, b, L, blen, hl) ==
  2 + 2 + blen + 2 + 21 + Width(a) + 1 + Width(b) + 1 + Width(L) + 2 + hl + 2
TrailerLen(blen) == 2 + 2 + blen + 2 + 2

\* exact length of the multipart body for parts R, with u64 overflow detection
RECURSIVE MultipartLenB(_, _, _, _, _)
MultipartLenB(R, i, L, hl, blen) ==
  IF i > Len(R) THEN [v |-> N(TrailerLen(blen)), of |-> FALSE]
  ELSE LET rest == MultipartLenB(R, i + 1, L, hl, blen)
           s == Add(Add(rest.v, N(PartHeaderLen(R[i].a, R[i].b, L, blen, hl))), Size(R[i].a, R[i].b))
       IN IF rest.of \/ ~IsU64(s) THEN [v |-> Zero, of |-> TRUE] ELSE [v |-> s, of |-> FALSE]
\* with the code's one-character boundary
MultipartLen(R, i, L, hl) == MultipartLenB(R, i, L, hl, 1)

\* (a multipart body whose exact length does not fit in 64 bits cannot be announced; the code
\* answers 413, which C13 lists; C03 accepts it in exactly that situation)
HeadMatchesShape(L, sh, h, ent) ==
  CASE sh.k = "full" -> ObsKind(h) = "full"
    [] sh.k = "unsat" -> h.status = 416 /\ h.cr.k = "unsat" /\ h.cr.l = L
    [] sh.k = "single" -> /\ ObsKind(h) = "single" /\ h.cr.k = "range"
                          /\ h.cr.a = sh.parts[1].a /\ h.cr.b = sh.parts[1].b /\ h.cr.l = L
    [] sh.k = "multi" -> \/ ObsKind(h) = "multi" /\ ~MustNotMultipart(L, sh.parts)
                         \/ ObsKind(h) = "full" /\ ~MustMultipart(L, sh.parts)
                         \* (whatever the boundary: 70 characters is the longest RFC 2046 allows)
                         \/ h.status = 413 /\ \E hl \in {0, ent.hl} : MultipartLenB(sh.parts, 1, L, hl, 70).of

MethodOK(req) == req.mclass \in {"get", "head"}

\* the request is in the domain where status is decided by the properties
Decided(req) == MethodOK(req) /\ WFCond(req.abs)

Passes(req) == /\ Decided(req) /\ ~PreconditionFailed(req.abs, req.ent)
               /\ ~NotModified(req.abs, req.ent)

RangeClaimed(req) == req.abs.range.k # "garbage"

Envelope == {200, 206, 304, 400, 405, 412, 413, 416}

(***************************************************************************)
(* Part 1c: head predicates, one per property                              *)
(***************************************************************************)
\* C03 speaks about requests whose only conditional element is the Range header (plus, here,
\* an If-Range that must be honoured), so that a defect of C04/C05 is not blamed on C03.
NoCond(abs) == abs.im.k = "none" /\ abs.inm.k = "none" /\ abs.ims.k = "none" /\ abs.ius.k = "none"
C03_Domain(req) == /\ MethodOK(req) /\ NoCond(req.abs) /\ RangeClaimed(req)
                   /\ ~IsZero(req.ent.len) /\ req.abs.ifr.k \in {"none", "tag"}
                   /\ IfRangeVerdict(req.abs, req.ent) = "yes"
C03_Head(req, h) ==
  C03_Domain(req) =>
     \E r \in RangeReadings(req.abs.range) :
         HeadMatchesShape(req.ent.len, ShapeOf(req.ent.len, r), h, req.ent)

C04_Head(req, h) ==
  Decided(req) =>
     /\ (h.status = 412) <=> PreconditionFailed(req.abs, req.ent)
     /\ (h.status = 304) <=> (~PreconditionFailed(req.abs, req.ent) /\ NotModified(req.abs, req.ent))

C05_Head(req, h) ==
  (MethodOK(req) /\ WFCond(req.abs) /\ req.abs.ifr.k # "none" /\ h.status \notin {304, 412, 400}) =>
     /\ (IfRangeVerdict(req.abs, req.ent) = "no") => (h.status = 200 /\ h.cr.k = "none")
     /\ (IfRangeVerdict(req.abs, req.ent) = "yes" /\ RangeClaimed(req) /\ ~IsZero(req.ent.len)) =>
           \E r \in RangeReadings(req.abs.range) :
               HeadMatchesShape(req.ent.len, ShapeOf(req.ent.len, r), h, req.ent)

C01_Head(req, h) ==
  /\ (h.status \in {200, 206}) => h.cl.k = "num"

C13_Head(req, h) ==
  /\ h.status \in Envelope
  /\ (req.mclass = "other") => (h.status = 405 /\ h.allow.k = "val"
                                  /\ \E i \in DOMAIN h.allow.toks : h.allow.toks[i] = "get"
                                  /\ \E j \in DOMAIN h.allow.toks : h.allow.toks[j] = "head")

\* C14, header clauses.  t0/t1 bracket the call (seconds).
C14_Head(req, h, t0, t1) ==
  (MethodOK(req) /\ h.status \in {200, 206, 304, 412, 416}) =>
     /\ h.ar.k = "val" /\ h.ar.lc = "bytes"
     /\ IF req.ent.etag.k = "tag" THEN h.etag.k = "val" /\ h.etag.v = req.ent.etagv
        ELSE h.etag.k = "none"
     \* (a modification time before 1970 has no HTTP-date: nothing is said about Date / Last-Modified then)
     /\ (req.ent.mt.k = "t" /\ req.ent.mt.s >= 0) =>
           /\ h.date.k = "secs" /\ t0 <= h.date.v /\ h.date.v <= t1
           /\ h.lm.k = "secs" /\ h.lm.v <= h.date.v
           /\ (req.ent.mt.s <= t0) => h.lm.v = req.ent.mt.s
           /\ (req.ent.mt.s > t1) => h.lm.v = h.date.v
           /\ h.lm.v \in {req.ent.mt.s, h.date.v}
     /\ (h.status = 200 \/ (h.status = 206 /\ req.abs.ifr.k = "none" /\ h.ct.k # "multipart"))
           => Cardinality({h.eh[i] : i \in DOMAIN h.eh}) = req.ent.nh
     /\ (h.status \in {304, 412, 416}) => h.eh = <<>>

C06_Head(req, h) ==
  (ObsKind(h) = "multi") => /\ h.ct.k = "multipart" /\ h.ct.boundary # ""
                            /\ h.cr.k = "none" /\ h.cl.k = "num"

C02_Head(req, h) ==
  (MethodOK(req) /\ h.status = 206 /\ h.ct.k # "multipart") =>
     /\ h.cr.k = "range" /\ Le(h.cr.a, h.cr.b) /\ Lt(h.cr.b, h.cr.l) /\ h.cr.l = req.ent.len

HeadOK(req, h, t0, t1) ==
  /\ Req("C01", C01_Head(req, h))
  /\ Req("C02", C02_Head(req, h))
  /\ Req("C03", C03_Head(req, h))
  /\ Req("C04", C04_Head(req, h))
  /\ Req("C05", C05_Head(req, h))
  /\ Req("C06", C06_Head(req, h))
  /\ Req("C13", C13_Head(req, h))
  /\ Req("C14", C14_Head(req, h, t0, t1))

\* names of the head predicates that fail (diagnostics)
HeadFailures(req, h, t0, t1) ==
  {id \in Enforce :
     \/ id = "C01" /\ ~C01_Head(req, h)
     \/ id = "C02" /\ ~C02_Head(req, h)
     \/ id = "C03" /\ ~C03_Head(req, h)
     \/ id = "C04" /\ ~C04_Head(req, h)
     \/ id = "C05" /\ ~C05_Head(req, h)
     \/ id = "C06" /\ ~C06_Head(req, h)
     \/ id = "C13" /\ ~C13_Head(req, h)
     \/ id = "C14" /\ ~C14_Head(req, h, t0, t1)}

(***************************************************************************)
(* C14 round trip: second request echoes the validators in S               *)
(***************************************************************************)
EchoHas(S, x) == \E i \in DOMAIN S : S[i] = x

C14_Echo(req, h1, S, h2) ==
  LET strong == req.ent.etag.k = "tag" /\ ~req.ent.etag.w
      weak == req.ent.etag.k = "tag" /\ req.ent.etag.w
      \* the served Last-Modified is the entity's second (mtime not in the future)
      lmIsEntity == req.ent.mt.k = "t" /\ h1.lm.k = "secs" /\ h1.lm.v = req.ent.mt.s
      dates == EchoHas(S, "ims") \/ EchoHas(S, "ius")
      due412 == EchoHas(S, "im") /\ weak
      due304 == ~due412 /\ (EchoHas(S, "inm") \/ EchoHas(S, "ims"))
  IN (dates => lmIsEntity) =>
       /\ (EchoHas(S, "im") /\ strong) => h2.status # 412
       /\ (EchoHas(S, "ius") /\ ~due412) => h2.status # 412
       /\ due304 => h2.status = 304
       /\ (EchoHas(S, "ir") /\ strong /\ ~due304 /\ ~due412 /\ ~IsZero(req.ent.len))
             => h2.status = 206

(***************************************************************************)
(* C15: HEAD mirrors GET.  hg = GET head, hh = HEAD head, bh = HEAD body    *)
(* summary ([tokens, calls, spolls, hint0lo, hint0up, eos0]).               *)
(***************************************************************************)
C15_Pair(hg, hh, bh) ==
  /\ hh.status = hg.status
  /\ hh.hs = hg.hs
  /\ (hh.date.k = "none") <=> (hg.date.k = "none")
  /\ (hh.lm.k = "none") <=> (hg.lm.k = "none")
  /\ bh.calls = 0 /\ bh.spolls = 0
  /\ (hh.status \in {200, 206, 304, 416}) =>
        /\ bh.total = 0
        /\ bh.hint0 = [lo |-> Zero, up |-> [k |-> "some", v |-> Zero]]
        /\ bh.eos0

(***************************************************************************)
(* Part 2: observation history of one body                                 *)
(***************************************************************************)
\* per get_range call: owed range [a, b) and what the stream did
NewCall(a, b) == [a |-> a, b |-> b, y |-> Zero, st |-> "live", over |-> FALSE, items |-> 0]

InitBody(h, isGet) ==
  [ ann |-> IF h.cl.k = "num" /\ isGet THEN [k |-> "some", v |-> h.cl.v] ELSE None,
    del |-> Zero,              \* bytes delivered
    term |-> "none",           \* first terminal event: none / end / err
    after |-> 0,               \* polls after the first terminal event
    eosSaid |-> FALSE,         \* is_end_stream() has returned TRUE at some probe
    polls |-> 0,
    calls |-> <<>>,
    probes |-> <<>>,           \* <<lo, up, delivered-at>> per poll
    bad |-> {} ]               \* names of violated body predicates (trace mode)

Owed(c) == Sub(c.b, c.a)

\* apply one environment event (get_range call or stream item) to the call table
ApplyEnv(calls, e) ==
  IF e.x = "getrange" THEN Append(calls, NewCall(e.a, e.b))
  ELSE LET c == calls[e.call]
           c2 == CASE e.k = "yield" -> LET y2 == AddN(c.y, e.n)
                                       IN [c EXCEPT !.y = y2, !.over = c.over \/ Lt(Owed(c), y2),
                                                    !.items = c.items + 1]
                   [] e.k = "end" -> [c EXCEPT !.st = "ended", !.items = c.items + 1]
                   [] e.k = "fail" -> [c EXCEPT !.st = "failed", !.items = c.items + 1]
                   [] OTHER -> c       \* pending / stall / done
       IN [calls EXCEPT ![e.call] = c2]

RECURSIVE ApplyEnvSeq(_, _, _)
ApplyEnvSeq(calls, env, i) ==
  IF i > Len(env) THEN calls ELSE ApplyEnvSeq(ApplyEnv(calls, env[i]), env, i + 1)

\* Entity::get_range's contract, as far as it can be judged so far: every stream delivered
\* exactly its range and then ended, or failed before the last byte; none overran.
ContractOK(calls) ==
  \A i \in DOMAIN calls :
     LET c == calls[i] IN
     /\ ~c.over
     /\ (c.st = "ended") => c.y = Owed(c)
     /\ (c.st = "failed") => Lt(c.y, Owed(c))

\* fully honest so far: no failure either
HonestSoFar(calls) ==
  \A i \in DOMAIN calls :
     LET c == calls[i] IN ~c.over /\ c.st # "failed" /\ ((c.st = "ended") => c.y = Owed(c))

AnyFaulty(calls) ==
  \E i \in DOMAIN calls :
     LET c == calls[i] IN c.st = "failed" \/ (c.st = "ended" /\ Lt(c.y, Owed(c)))

AnyOver(calls) == \E i \in DOMAIN calls : calls[i].over

\* p: a poll observation [lo, up, eos, res, n, env, nexts]
\*    (nexts: what each entity stream would hand out if it were polled now)
\* Returns the set of names of body predicates that p violates in history bs.
PollFailures(bs, p, isGet) ==
  LET calls2 == ApplyEnvSeq(bs.calls, p.env, 1)
      del2 == IF p.res = "data" THEN AddN(bs.del, p.n) ELSE bs.del
      exact == p.up.k = "some" /\ p.up.v = p.lo
      first == bs.polls = 0
      annv == IF bs.ann.k = "some" THEN bs.ann.v ELSE IF first THEN p.lo ELSE Zero
      hasAnn == bs.ann.k = "some" \/ first
      firstTerminal == bs.term = "none" /\ p.res \in {"end", "err"}
  IN
  {id \in Enforce :
     \* --- C01: announced = delivered
     \/ id = "C01" /\ \/ (first /\ ~exact)                    \* no exact hint before the first poll
                      \/ (first /\ bs.ann.k = "some" /\ p.lo # bs.ann.v)
                      \/ (hasAnn /\ Lt(annv, del2))           \* more than announced
                      \/ (hasAnn /\ firstTerminal /\ p.res = "end" /\ HonestSoFar(calls2)
                             /\ del2 # annv)
     \* --- C07: a faulty stream never yields a clean, complete-looking body
     \* (only streams that actually misbehaved are C07's business; C01 covers honest ones)
     \/ id = "C07" /\ \/ (firstTerminal /\ p.res = "end" /\ AnyFaulty(calls2))
                      \/ (firstTerminal /\ p.res = "end" /\ AnyOver(calls2))
                      \/ (hasAnn /\ AnyOver(calls2) /\ Lt(annv, del2))
                      \* a stream that is about to fail, or to hand out bytes beyond its range, was not
                      \* even looked at: the consumer polling past the announced length got a clean end
                      \/ (firstTerminal /\ p.res = "end" /\
                            \E i \in DOMAIN p.nexts :
                               p.nexts[i].k = "fail" \/ (p.nexts[i].k = "yield" /\ p.nexts[i].n > 0))
                      \* a stream that has nothing more to give although its range is not complete (a short
                      \* stream, whether or not the body polled it to its end)
                      \/ (firstTerminal /\ p.res = "end" /\
                            \E i \in DOMAIN p.nexts :
                               /\ p.nexts[i].k \in {"end", "done"}
                               /\ p.nexts[i].call \in DOMAIN calls2
                               /\ Lt(calls2[p.nexts[i].call].y, Owed(calls2[p.nexts[i].call])))
     \* --- C12: hints exact and truthful, end-of-stream flag truthful
     \/ id = "C12" /\ \/ ~exact
                      \/ (bs.eosSaid /\ ContractOK(calls2) /\ p.res = "data" /\ p.n > 0)
                      \/ (bs.eosSaid /\ ContractOK(calls2) /\ p.res = "err")
                      \/ (p.eos /\ ContractOK(calls2) /\ p.res = "data" /\ p.n > 0)
                      \/ (p.eos /\ ContractOK(calls2) /\ p.res = "err")
                      \/ (firstTerminal /\ p.res = "end" /\ ContractOK(calls2) /\
                            \E j \in 1..(Len(bs.probes) + 1) :
                               LET pr == IF j <= Len(bs.probes) THEN bs.probes[j]
                                         ELSE <<p.lo, p.up, bs.del>>
                                   still == Sub(del2, pr[3])
                               IN Lt(still, pr[1]) \/ (pr[2].k = "some" /\ Lt(pr[2].v, still)))
     \* --- C13: no panic while draining
     \/ id = "C13" /\ p.res = "panic"
     \* --- C20: terminated bodies stay terminated
     \/ id = "C20" /\ bs.term # "none" /\ p.res \in {"data", "trailers"} /\ p.n > 0
     \/ id = "C20" /\ p.res = "panic"
  }

Observe(bs, p, isGet) ==
  LET calls2 == ApplyEnvSeq(bs.calls, p.env, 1)
      del2 == IF p.res = "data" THEN AddN(bs.del, p.n) ELSE bs.del
  IN [bs EXCEPT
        !.ann = IF bs.ann.k = "none" /\ bs.polls = 0 THEN [k |-> "some", v |-> p.lo] ELSE bs.ann,
        !.del = del2,
        !.term = IF bs.term = "none" /\ p.res \in {"end", "err"} THEN p.res ELSE bs.term,
        !.after = IF bs.term # "none" THEN bs.after + 1 ELSE bs.after,
        !.eosSaid = bs.eosSaid \/ p.eos,
        !.polls = bs.polls + 1,
        !.calls = calls2,
        !.probes = Append(bs.probes, <<p.lo, p.up, bs.del>>),
        !.bad = bs.bad \cup PollFailures(bs, p, isGet)]

(***************************************************************************)
(* Body tokens (C02, C03 parts, C06)                                        *)
(***************************************************************************)
D(r, n) == [t |-> "D", r |-> r, n |-> n]

\* expected complete token sequence of a multipart body (data sizes must be small: drained)
RECURSIVE MultipartTokens(_, _, _, _, _)
MultipartTokens(R, i, L, blen, eh) ==
  IF i > Len(R) THEN <<[t |-> "TR", len |-> TrailerLen(blen)]>>
  ELSE << [t |-> "PH", a |-> R[i].a, b |-> R[i].b, l |-> L,
           len |-> PartHeaderLen(R[i].a, R[i].b, L, blen, eh.hl), nh |-> eh.nh],
          D(Mod251(R[i].a), ToNat(Size(R[i].a, R[i].b))) >>
       \o MultipartTokens(R, i + 1, L, blen, eh)

\* projection of observed tokens to the fields the expectation speaks about
ProjTok(t, withHdrs) ==
  CASE t.t = "PH" -> [t |-> "PH", a |-> t.a, b |-> t.b, l |-> t.l, len |-> t.len,
                      nh |-> IF withHdrs THEN t.nh ELSE 0]
    [] t.t = "D" -> D(t.r, t.n)
    [] t.t = "TR" -> [t |-> "TR", len |-> t.len]
    [] OTHER -> [t |-> "RAW", len |-> t.len]

ProjToks(toks, withHdrs) == [i \in DOMAIN toks |-> ProjTok(toks[i], withHdrs)]

\* obs is a prefix of exp, where the last observed D token may be shorter than expected
TokPrefix(obs, exp) ==
  /\ Len(obs) <= Len(exp)
  /\ \A i \in DOMAIN obs :
        \/ obs[i] = exp[i]
        \/ (i = Len(obs) /\ obs[i].t = "D" /\ exp[i].t = "D" /\ obs[i].r = exp[i].r
              /\ obs[i].n <= exp[i].n)

RECURSIVE SumTokLens(_, _)
SumTokLens(toks, i) ==
  IF i > Len(toks) THEN 0
  ELSE (IF toks[i].t = "D" THEN toks[i].n ELSE toks[i].len) + SumTokLens(toks, i + 1)

PHParts(toks) ==
  LET RECURSIVE Collect(_)
      Collect(i) == IF i > Len(toks) THEN <<>>
                    ELSE (IF toks[i].t = "PH" THEN <<[a |-> toks[i].a, b |-> toks[i].b]>> ELSE <<>>)
                         \o Collect(i + 1)
  IN Collect(1)

\* entity headers inside each part equal the entity's own (as sets of name/value pairs)
PartHdrsAre(toks, ehdrs) ==
  \A i \in DOMAIN toks : toks[i].t = "PH" =>
      /\ toks[i].nh = Len(ehdrs)
      /\ {toks[i].hdrs[j] : j \in DOMAIN toks[i].hdrs} = {ehdrs[j] : j \in DOMAIN ehdrs}

SmallSizes(R) == \A i \in DOMAIN R : IsSmall(Size(R[i].a, R[i].b))

\* Body-level predicates, evaluated at the `body` event of a GET run.
\* bs: final history; toks: lexed body; drained: the harness saw the terminal event.
BodyFailures(req, h, bs, toks, drained) ==
  LET L == req.ent.len
      kind == ObsKind(h)
      honest == HonestSoFar(bs.calls)
      clean == bs.term = "end" /\ honest
      readings == RangeReadings(req.abs.range)
      rdom == C03_Domain(req)
      blen == IF h.ct.k = "multipart" THEN h.ct.blen ELSE 0
      ptoks0 == ProjToks(toks, TRUE)
  IN
  {id \in Enforce :
     \* --- C02: exactly the bytes the head names
     \/ id = "C02" /\ kind = "full" /\ honest /\
           LET exp == IF IsZero(L) THEN <<>> ELSE <<D(0, IF IsSmall(L) THEN ToNat(L) ELSE B)>>
           IN ~TokPrefix(ptoks0, exp) \/ (clean /\ IsSmall(L) /\ ptoks0 # exp)
     \/ id = "C02" /\ kind = "single" /\ honest /\ h.cr.k = "range" /\ Le(h.cr.a, h.cr.b) /\
           LET sz == Size(h.cr.a, h.cr.b)
               exp == <<D(Mod251(h.cr.a), IF IsSmall(sz) THEN ToNat(sz) ELSE B)>>
           IN ~TokPrefix(ptoks0, exp) \/ (clean /\ IsSmall(sz) /\ ptoks0 # exp)
     \* (an entity that honoured its contract to the end gets its bytes delivered, not an aborted
     \*  transfer: the body of a 200 / 206 never fails on its own)
     \/ id = "C02" /\ kind \in {"full", "single", "multi"} /\ honest /\ bs.term = "err"
     \* (multipart: under every part header exactly the bytes its own Content-Range names -- whatever
     \*  the request asked for, which is C03's and C06's business)
     \/ id = "C02" /\ kind = "multi" /\ honest /\
           \E i \in DOMAIN toks :
              \/ (toks[i].t = "D" /\ (i = 1 \/ toks[i - 1].t # "PH"))          \* data outside any part
              \/ /\ toks[i].t = "PH" /\ i < Len(toks)
                 /\ ~(Le(toks[i].a, toks[i].b) /\ Lt(toks[i].b, toks[i].l) /\ toks[i].l = L)
              \/ /\ toks[i].t = "PH" /\ i < Len(toks) /\ Le(toks[i].a, toks[i].b)
                 /\ IsSmall(Size(toks[i].a, toks[i].b))
                 /\ LET sz == ToNat(Size(toks[i].a, toks[i].b))
                        nx == toks[i + 1]
                    IN ~( /\ nx.t = "D" /\ nx.r = Mod251(toks[i].a) /\ nx.n <= sz
                          /\ (i + 1 < Len(toks) => nx.n = sz) )
     \* --- C03: a multipart body carries exactly the resolved ranges, in request order
     \/ id = "C03" /\ kind = "multi" /\ clean /\ rdom /\
           ~\E r \in readings : LET sh == ShapeOf(L, r) IN sh.k = "multi" /\ PHParts(toks) = sh.parts
     \* --- C06: a multipart body of an honest entity is the promised one, not an aborted transfer
     \/ id = "C06" /\ kind = "multi" /\ honest /\ bs.term = "err"
     \* --- C06: the whole multipart structure, and its announced length
     \* (without If-Range every part carries the entity's own headers; with a matching If-Range the
     \*  property leaves open whether it carries them or none -- but never anything else)
     \/ id = "C06" /\ kind = "multi" /\ rdom /\ honest /\
           ~\E r \in readings, withH \in (IF req.abs.ifr.k = "none" THEN {TRUE} ELSE {TRUE, FALSE}) :
               LET sh == ShapeOf(L, r)
                   eh == IF withH THEN [hl |-> req.ent.hl, nh |-> req.ent.nh] ELSE [hl |-> 0, nh |-> 0]
                   ptoks == ProjToks(toks, TRUE)
               IN
               /\ sh.k = "multi"
               /\ IF SmallSizes(sh.parts)
                  THEN LET exp == MultipartTokens(sh.parts, 1, L, blen, eh)
                       IN /\ TokPrefix(ptoks, exp)
                          /\ clean => (ptoks = exp /\ (withH => PartHdrsAre(toks, req.ent.hdrs)))
                          /\ withH => \A i \in DOMAIN toks : toks[i].t = "PH" => PartHdrsAre(<<toks[i]>>, req.ent.hdrs)
                          /\ h.cl.k = "num" /\ h.cl.v = N(SumTokLens(exp, 1))
                  ELSE \* parts too long to drain: the announced length must still be the exact one
                       LET ml == MultipartLenB(sh.parts, 1, L, eh.hl, blen)
                       IN h.cl.k = "num" /\ ~ml.of /\ h.cl.v = ml.v
  }

(***************************************************************************)
(* Part 3: Impl -- model of the code                                       *)
(***************************************************************************)
\* etag::any_match / none_match on abstract lists
ImplAnyMatch(abs, ent) ==
  CASE abs.im.k = "none" -> TRUE
    [] abs.im.k = "star" -> TRUE
    [] OTHER -> \E i \in DOMAIN abs.im.tags : StrongEqT(abs.im.tags[i], ent.etag)

\* Some(true) -> "nomatch", Some(false) -> "match", None -> "absent"
ImplNoneMatch(abs, ent) ==
  CASE abs.inm.k = "none" -> "absent"
    [] abs.inm.k = "star" -> "match"
    [] OTHER -> IF \E i \in DOMAIN abs.inm.tags : WeakEqT(abs.inm.tags[i], ent.etag)
                THEN "match" ELSE "nomatch"

ImplPF(abs, ent) ==
  IF ~ImplAnyMatch(abs, ent) THEN TRUE
  ELSE IF abs.im.k # "none" THEN FALSE
  ELSE ent.mt.k = "t" /\ abs.ius.k = "date" /\ ent.mt.s > abs.ius.s

ImplNM(abs, ent) ==
  LET nm == ImplNoneMatch(abs, ent) IN
  CASE nm = "nomatch" -> FALSE
    [] nm = "match" -> TRUE
    [] OTHER -> ent.mt.k = "t" /\ abs.ims.k = "date" /\ ent.mt.s <= abs.ims.s

\* the If-Range gate: TRUE iff the Range header survives
ImplRangeKept(abs, ent) ==
  abs.ifr.k = "none" \/ (abs.ifr.k = "tag" /\ StrongEqT(abs.ifr, ent.etag))

\* range::parse on a clean set, with the code's own arithmetic (range.rs:64-88): half-open
\* ranges in u64, `last + 1` saturating at u64::MAX, then clamped to len; suffix clamped to len.
\* (Kept separate from ResolveSpec, which is the RFC reading from the property text: the model
\* checker compares the two on every enumerated case.)
SatSucc(x) == IF x = MaxU64 \/ ~IsU64(x) THEN MaxU64 ELSE Succ(x)
ImplResolveSpec(L, s) ==
  CASE s.k = "s" -> LET last == Min(s.n, L) IN
                    IF IsZero(last) THEN <<>> ELSE <<[a |-> Sub(L, last), b |-> Pred(L)]>>
    [] s.k = "f" -> IF Le(L, s.a) THEN <<>> ELSE <<[a |-> s.a, b |-> Pred(L)]>>
    [] s.k = "fl" -> LET end == Min(SatSucc(s.b), L) IN
                     IF Le(end, s.a) THEN <<>> ELSE <<[a |-> s.a, b |-> Pred(end)]>>
RECURSIVE ImplResolveFrom(_, _, _)
ImplResolveFrom(L, specs, i) ==
  IF i > Len(specs) THEN <<>> ELSE ImplResolveSpec(L, specs[i]) \o ImplResolveFrom(L, specs, i + 1)
ImplResolve(L, r) == ImplResolveFrom(L, r.specs, 1)

ImplEstimateOK(L, R) ==
  LET s == SumSizes(R, 1, PartEstimate) IN ~s.of /\ Lt(s.v, L)

\* multipart body length as prepare_multipart computes it (boundary "B")
ImplMultipartLen(R, i, L, hl) == MultipartLen(R, i, L, hl)

\* The head the code produces for a request whose headers are all absent or well-formed and
\* whose Range (if any) is a clean set or ignored.  `now` in seconds.
\* Result: [status, cl, cr, ct, ar, etag, date, lm, allow, eh, body]
\*   body: [k |-> "once", n] | [k |-> "empty"] | [k |-> "exact", a, b] | [k |-> "multi", parts, len]
ImplHead(req, now) ==
  LET abs == req.abs
      ent == req.ent
      L == ent.len
      isHead == req.mclass = "head"
      base == [status |-> 200, cl |-> None, cr |-> None, ct |-> None,
               ar |-> [k |-> "val", v |-> [k |-> "txt", s |-> "bytes"]],
               etag |-> IF ent.etag.k = "tag" THEN [k |-> "val", v |-> ent.etagv] ELSE None,
               date |-> IF ent.mt.k = "t" THEN [k |-> "secs", v |-> now] ELSE None,
               lm |-> IF ent.mt.k = "t"
                      THEN [k |-> "secs", v |-> IF ent.mt.s < 0 THEN 0 ELSE IF ent.mt.s < now THEN ent.mt.s ELSE now]
                      ELSE None,
               allow |-> None, eh |-> <<>>, body |-> [k |-> "empty"]]
      allEh == [i \in 1..ent.nh |-> i]
      kept == ImplRangeKept(abs, ent)
      rng == IF kept /\ abs.range.k = "set" THEN abs.range ELSE NoRange
      ehOnRange == abs.ifr.k = "none"
      full == [base EXCEPT !.cl = [k |-> "num", v |-> L], !.eh = allEh,
                           !.body = IF isHead THEN [k |-> "empty"]
                                    ELSE [k |-> "exact", a |-> Zero, b |-> L]]
  IN
  IF req.mclass = "other"
  THEN [status |-> 405, cl |-> None, cr |-> None, ct |-> None, ar |-> None, etag |-> None,
        date |-> None, lm |-> None,
        allow |-> [k |-> "val", toks |-> <<"get", "head">>], eh |-> <<>>,
        body |-> [k |-> "once", n |-> 41]]
  ELSE IF ImplPF(abs, ent) THEN [base EXCEPT !.status = 412, !.body = [k |-> "once", n |-> 19]]
  ELSE IF ImplNM(abs, ent) THEN [base EXCEPT !.status = 304]
  ELSE IF rng.k = "none" THEN full
  ELSE LET R == ImplResolve(L, rng) IN
       CASE Len(R) = 0 ->
              [base EXCEPT !.status = 416, !.cr = [k |-> "unsat", l |-> L]]
         [] Len(R) = 1 ->
              [base EXCEPT !.status = 206,
                           !.cr = [k |-> "range", a |-> R[1].a, b |-> R[1].b, l |-> L],
                           !.cl = [k |-> "num", v |-> Size(R[1].a, R[1].b)],
                           !.eh = IF ehOnRange THEN allEh ELSE <<>>,
                           !.body = IF isHead THEN [k |-> "empty"]
                                    ELSE [k |-> "exact", a |-> R[1].a, b |-> Succ(R[1].b)]]
         [] OTHER ->
              IF ImplEstimateOK(L, R)
              THEN LET ml == ImplMultipartLen(R, 1, L, IF ehOnRange THEN ent.hl ELSE 0) IN
                   IF ml.of
                   THEN [status |-> 413, cl |-> None, cr |-> None, ct |-> None, ar |-> None,
                         etag |-> None, date |-> None, lm |-> None, allow |-> None, eh |-> <<>>,
                         body |-> [k |-> "once", n |-> 28]]
                   ELSE [base EXCEPT !.status = 206,
                                     !.cl = [k |-> "num", v |-> ml.v],
                                     !.ct = [k |-> "multipart", boundary |-> "B"],
                                     !.body = IF isHead THEN [k |-> "empty"]
                                              ELSE [k |-> "multi", parts |-> R, len |-> ml.v]]
              ELSE full

\* the fields of an observed head that ImplHead predicts
KV(x) == IF x.k = "val" THEN [k |-> "val", v |-> x.v] ELSE x
HeadCore(h) == [status |-> h.status, cl |-> h.cl, cr |-> h.cr,
                ct |-> IF h.ct.k = "multipart" THEN [k |-> "multipart", boundary |-> h.ct.boundary] ELSE None,
                ar |-> KV(h.ar), etag |-> KV(h.etag), allow |-> h.allow, eh |-> h.eh]
ImplCore(ih) == [status |-> ih.status, cl |-> ih.cl, cr |-> ih.cr, ct |-> ih.ct,
                 ar |-> ih.ar, etag |-> ih.etag, allow |-> ih.allow, eh |-> ih.eh]

\* is the request in the domain where ImplHead is deterministic?
ImplDomain(req) ==
  /\ WFCond(req.abs) /\ req.abs.ifr.k # "garbage"
  /\ req.abs.range.k \in {"none", "ignored"} \/ (req.abs.range.k = "set" /\ ~req.abs.range.free)

(***************************************************************************)
(* Impl body machines (body.rs Once / ExactLenStream, serving.rs            *)
(* MultipartStream).  One poll = ImplPoll(ib, item): `item` is what the     *)
(* entity stream returns if this poll polls it ([k, n], k in yield /        *)
(* pending / end / fail / done), ignored otherwise.                         *)
(* ib: [k, rem (total remaining, the size hint), ...]                      *)
(***************************************************************************)
ImplBodyInit(b) ==
  CASE b.k = "empty" -> [k |-> "once", rem |-> Zero, taken |-> TRUE]
    [] b.k = "once" -> [k |-> "once", rem |-> N(b.n), taken |-> FALSE]
    [] b.k = "exact" -> [k |-> "exact", rem |-> Sub(b.b, b.a), call |-> 1]
    [] b.k = "multi" -> [k |-> "multi", rem |-> b.len, parts |-> b.parts, st |-> 0,
                         cur |-> FALSE, crem |-> Zero, ncalls |-> 0, l |-> Zero, hl |-> 0]

\* get_range calls made by serve() itself, before any poll
ImplInitialCalls(b) == IF b.k = "exact" THEN <<[a |-> b.a, b |-> b.b]>> ELSE <<>>

ImplHint(ib) == [lo |-> ib.rem, up |-> [k |-> "some", v |-> ib.rem]]
ImplEos(ib) == IF ib.k = "once" THEN ib.taken ELSE IsZero(ib.rem)

\* ExactLenStream::poll_next on remaining `rem` with stream item `it`:
\*   [res, n, rem']
ExactStep(rem, it) ==
  CASE it.k = "yield" -> IF Le(N(it.n), rem) THEN [res |-> "data", n |-> it.n, rem |-> Sub(rem, N(it.n))]
                         ELSE [res |-> "err", n |-> 0, rem |-> Zero]
    [] it.k = "fail" -> [res |-> "err", n |-> 0, rem |-> rem]
    [] it.k \in {"end", "done"} -> IF IsZero(rem) THEN [res |-> "end", n |-> 0, rem |-> rem]
                                   ELSE [res |-> "err", n |-> 0, rem |-> Zero]
    [] OTHER -> [res |-> "pending", n |-> 0, rem |-> rem]

\* does this poll consult the entity stream?  (for multipart: after possibly calling get_range)
ImplPollsStream(ib) ==
  CASE ib.k = "once" -> FALSE
    [] ib.k = "exact" -> TRUE
    [] ib.k = "multi" -> ib.cur \/ (ib.st < 2 * Len(ib.parts) /\ ib.st % 2 = 1)

\* the get_range call this poll makes before polling (multipart, entering a part's data state)
ImplPollCalls(ib) ==
  IF ib.k = "multi" /\ ~ib.cur /\ ib.st < 2 * Len(ib.parts) /\ ib.st % 2 = 1
  THEN LET r == ib.parts[(ib.st \div 2) + 1] IN <<[a |-> r.a, b |-> Succ(r.b)]>>
  ELSE <<>>

\* [res, n, ib']  -- hdrLen(i) supplies the length of part header i
ImplPoll(ib, it, hdrLen(_)) ==
  CASE ib.k = "once" ->
         IF ib.taken THEN [res |-> "end", n |-> 0, ib |-> ib]
         ELSE [res |-> "data", n |-> ToNat(ib.rem), ib |-> [ib EXCEPT !.rem = Zero, !.taken = TRUE]]
    [] ib.k = "exact" ->
         LET s == ExactStep(ib.rem, it) IN [res |-> s.res, n |-> s.n, ib |-> [ib EXCEPT !.rem = s.rem]]
    [] ib.k = "multi" ->
         LET np == Len(ib.parts)
             endSt == 2 * np + 1
         IN
         IF ib.cur \/ (ib.st < 2 * np /\ ib.st % 2 = 1)
         THEN \* poll the current part's ExactLenStream (created just now if needed)
              LET r == ib.parts[(ib.st \div 2) + 1]
                  crem == IF ib.cur THEN ib.crem ELSE Size(r.a, r.b)
                  s == ExactStep(crem, it)
              IN CASE s.res = "data" ->
                        [res |-> "data", n |-> s.n,
                         ib |-> [ib EXCEPT !.cur = TRUE, !.crem = s.rem, !.rem = Sub(ib.rem, N(s.n))]]
                   [] s.res = "err" ->
                        [res |-> "err", n |-> 0,
                         ib |-> [ib EXCEPT !.cur = FALSE, !.crem = Zero, !.rem = Zero, !.st = endSt]]
                   [] s.res = "pending" ->
                        [res |-> "pending", n |-> 0, ib |-> [ib EXCEPT !.cur = TRUE, !.crem = s.rem]]
                   [] OTHER -> \* part stream ended cleanly: next state, fall through (no 2nd stream poll)
                        LET st2 == ib.st + 1 IN
                        IF st2 = 2 * np
                        THEN [res |-> "data", n |-> TrailerLen(1),
                              ib |-> [ib EXCEPT !.cur = FALSE, !.crem = Zero, !.st = st2 + 1,
                                                !.rem = Sub(ib.rem, N(TrailerLen(1)))]]
                        ELSE LET hn == hdrLen((st2 \div 2) + 1) IN
                             [res |-> "data", n |-> hn,
                              ib |-> [ib EXCEPT !.cur = FALSE, !.crem = Zero, !.st = st2 + 1,
                                                !.rem = Sub(ib.rem, N(hn))]]
         ELSE IF ib.st = endSt THEN [res |-> "end", n |-> 0, ib |-> ib]
         ELSE IF ib.st = 2 * np
         THEN [res |-> "data", n |-> TrailerLen(1),
               ib |-> [ib EXCEPT !.st = endSt, !.rem = Sub(ib.rem, N(TrailerLen(1)))]]
         ELSE LET hn == hdrLen((ib.st \div 2) + 1) IN
              [res |-> "data", n |-> hn,
               ib |-> [ib EXCEPT !.st = ib.st + 1, !.rem = Sub(ib.rem, N(hn))]]

=============================================================================
