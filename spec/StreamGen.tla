----------------------------- MODULE StreamGen -----------------------------
(***************************************************************************)
(* Spec -> implementation direction for the streaming engine: StreamMC      *)
(* with a history variable that records the producer program and the        *)
(* schedule (which thread steps, which consumer operation with which        *)
(* waker).  At every finished state the complete behaviour is printed as    *)
(* JSON; the driver replays it step by step in the real code through the    *)
(* hook scheduler.  Run exhaustively for tiny programs (every behaviour)    *)
(* and with -simulate for larger ones.                                      *)
(***************************************************************************)
EXTENDS StreamMC, Json

VARIABLE hist
gvars == <<c, os, k, hist>>

GInit ==
  \E cap \in Caps, prog \in Programs(0) :
     LET s0 == RunLocal(InitImpl(cap, prog), <<>>) IN
     /\ c = s0.c
     /\ os = ObserveStep(InitObs, PEvent(s0.c, s0.done, 0))
     /\ k = [spur |-> 0, probes |-> 0, extra |-> 0]
     /\ hist = [cap |-> cap, prog |-> [i \in DOMAIN prog |-> <<prog[i].op, prog[i].n>>], sched |-> <<>>]

Lbl(x) == [hist EXCEPT !.sched = Append(hist.sched, x)]

GNext ==
  \/ P_Step /\ hist' = Lbl(<<"P">>)
  \/ \E w \in {1, 2} : C_Poll(w) /\ hist' = Lbl(<<"C", "poll", w>>)
  \/ C_Probe("hint") /\ hist' = Lbl(<<"C", "hint">>)
  \/ C_Probe("eos") /\ hist' = Lbl(<<"C", "eos">>)
  \/ C_Drop /\ hist' = Lbl(<<"C", "drop">>)

GSpec == GInit /\ [][GNext]_gvars

Emit == (Finished /\ (~c.alive \/ k.extra >= MaxExtra)) => PrintT(<<"SCHED", ToJson(hist)>>)
=============================================================================
