------------------------------ MODULE NegTrace ------------------------------
(***************************************************************************)
(* Trace validation of http_serve::should_gzip: each event carries the     *)
(* abstract Accept-Encoding view the header was rendered from and the      *)
(* observed result.                                                        *)
(***************************************************************************)
EXTENDS AcceptEncoding, Json, IOUtils, TLC
CONSTANTS Enforce, Strict
Rec == ndJsonDeserialize(IOEnv.TRACE)
OutFile == IOEnv.OUT
VARIABLES l, st
vars == <<l, st>>
Init == l = 1 /\ st = [viol |-> {}, drift |-> {}, cases |-> 0]

Step(s, e, ln) ==
  IF e.ev # "neg" THEN s
  ELSE LET bad == \/ e.res = "panic"
                  \/ e.res \in {"true", "false"} /\ (e.res = "true") \notin AllowedFor(e.abs)
           dr == Strict /\ e.abs.k \in {"list", "absent"} /\ e.res \in {"true", "false"}
                   /\ (e.res = "true") # ImplShouldGzip(e.abs)
       IN [s EXCEPT !.cases = s.cases + 1,
                    !.viol = IF bad /\ "C16" \in Enforce THEN s.viol \cup {<<e.case, ln, "C16", "should_gzip">>} ELSE s.viol,
                    !.drift = IF dr THEN s.drift \cup {<<e.case, ln, "should_gzip">>} ELSE s.drift]

RECURSIVE SetToSeqLocal(_)
SetToSeqLocal(S) == IF S = {} THEN <<>> ELSE LET x == CHOOSE y \in S : TRUE IN <<x>> \o SetToSeqLocal(S \ {x})

Next ==
  \/ /\ l <= Len(Rec) /\ st' = Step(st, Rec[l], l) /\ l' = l + 1
  \/ /\ l = Len(Rec) + 1
     /\ ndJsonSerialize(OutFile, <<[events |-> Len(Rec), cases |-> st.cases,
                                    viol |-> SetToSeqLocal(st.viol), drift |-> SetToSeqLocal(st.drift)]>>)
     /\ l' = l + 1 /\ st' = st
Spec == Init /\ [][Next]_vars
Accepted == TLCGet("stats").diameter = Len(Rec) + 2
=============================================================================
