---------------------------- MODULE ServeTrace ----------------------------
(***************************************************************************)
(* Trace validation for the serve engine.  Reads the ndjson trace written   *)
(* by `vh serve` (one line per observation of the real code) and replays it *)
(* through the observation history of module Serve, evaluating the property *)
(* predicates of the properties in Enforce at every step.                   *)
(*                                                                         *)
(* One pass, deterministic, linear in the trace: an event whose predicates  *)
(* fail is recorded in `viol` (with case id, line and property) and the     *)
(* pass continues, so every failing case of a file is reported.  With       *)
(* Strict = TRUE the observed head / poll results are additionally compared *)
(* with the Impl model (recorded in `drift`; never a violation).            *)
(***************************************************************************)
EXTENDS Serve, Json, IOUtils

CONSTANT Strict

Rec == ndJsonDeserialize(IOEnv.TRACE)
OutFile == IOEnv.OUT

VARIABLES l, st

vars == <<l, st>>

NoHead == [status |-> 0]

Init0 == [case |-> 0, req |-> None, hasReq |-> FALSE,
          run |-> "", isGet |-> FALSE, h |-> NoHead, hasH |-> FALSE, t0 |-> 0, t1 |-> 0,
          eos0 |-> FALSE,
          bs |-> [term |-> "none"], hasB |-> FALSE,
          mainH |-> NoHead, mainIsGet |-> FALSE, mainB |-> [total |-> 0], hasMain |-> FALSE,
          ib |-> [k |-> "none"], ibOK |-> FALSE,
          convLen |-> 0, isFile |-> FALSE,   \* isFile: the entity is a real ChunkedReadFile (no stream log)
          viol |-> {}, drift |-> {}, cases |-> 0, heads |-> 0, pollsN |-> 0]

Bad(s, ln, ids, what) == {<<s.case, ln, id, what>> : id \in ids}

\* ---- Strict layer helpers -------------------------------------------------
HdrLenOf(s, i) ==
  LET b == s.ib IN
  PartHeaderLen(b.parts[i].a, b.parts[i].b, b.l, 1, b.hl)

ImplInitFor(req, h, now) ==
  LET ih == ImplHead(req, now)
      b0 == ImplBodyInit(ih.body)
  IN IF b0.k = "multi"
     THEN [b0 EXCEPT !.l = req.ent.len,
                     !.hl = IF req.abs.ifr.k = "none" THEN req.ent.hl ELSE 0]
     ELSE b0

\* the single stream item (if any) in a poll's env list, else a dummy
ItemOf(env) ==
  LET idx == {i \in DOMAIN env : env[i].x = "item"} IN
  IF idx = {} THEN [k |-> "none", n |-> 0]
  ELSE LET i == CHOOSE j \in idx : TRUE IN [k |-> env[i].k, n |-> env[i].n]

CallsOf(env) ==
  LET RECURSIVE C(_)
      C(i) == IF i > Len(env) THEN <<>>
              ELSE (IF env[i].x = "getrange" THEN <<[a |-> env[i].a, b |-> env[i].b]>> ELSE <<>>)
                   \o C(i + 1)
  IN C(1)

\* ---- event handlers -------------------------------------------------------
OnReset(s, e) == [Init0 EXCEPT !.case = e.case, !.viol = s.viol, !.drift = s.drift,
                               !.cases = s.cases + 1, !.heads = s.heads, !.pollsN = s.pollsN]

OnReq(s, e) == [s EXCEPT !.req = [mclass |-> e.mclass, ent |-> e.ent, abs |-> e.abs],
                         !.hasReq = TRUE, !.isFile = e.file]

OnHead(s, e, ln) ==
  IF ~s.hasReq THEN s
  ELSE IF e.panic
  THEN [s EXCEPT !.hasH = FALSE, !.hasB = FALSE, !.run = e.run,
                 !.viol = s.viol \cup Bad(s, ln,
                     (Enforce \cap {"C13"}) \cup
                     (IF s.req.abs.range.k \in {"set", "ignored"} THEN Enforce \cap {"C03"} ELSE {}),
                     "panic in serve()")]
  ELSE
  LET req == s.req
      h == e.h
      isGet == e.method = "GET"
      isMain == e.run = "main"
      \* main and twin runs are judged against the request; the echo run by C14_Echo
      judged == e.run \in {"main", "twin"}
      req2 == IF e.run = "twin"
              THEN [req EXCEPT !.mclass = IF req.mclass = "get" THEN "head" ELSE "get"] ELSE req
      fails == IF judged THEN HeadFailures(req2, h, e.t0, e.t1) ELSE {}
      envCalls == CallsOf(e.env)
      c13calls == IF "C13" \in Enforce /\ req2.mclass = "other" /\ Len(e.env) > 0 THEN {"C13"} ELSE {}
      c15calls == IF "C15" \in Enforce /\ e.method = "HEAD" /\ Len(e.env) > 0 THEN {"C15"} ELSE {}
      echoFail == IF e.run = "echo" /\ "C14" \in Enforce /\ s.hasMain
                     /\ ~C14_Echo(req, s.mainH, e.echo, h) THEN {"C14"} ELSE {}
      bs0 == InitBody(h, isGet)
      bs1 == [bs0 EXCEPT !.calls = ApplyEnvSeq(<<>>, e.env, 1)]
      \* (requests with thousands of ranges are judged by the property predicates only: replaying the
      \*  Impl model over them costs recursion depth for nothing)
      huge == req2.abs.range.k = "set" /\ Len(req2.abs.range.specs) > 1000
      inDom == judged /\ ~huge /\ ImplDomain(req2)
      ih == ImplHead(req2, h.date.v)
      dr == IF Strict /\ inDom /\ (req2.ent.mt.k = "none" \/ h.date.k = "secs")
            THEN IF HeadCore(h) # ImplCore(IF req2.ent.mt.k = "none" THEN ImplHead(req2, 0) ELSE ih)
                 THEN {<<s.case, ln, "head">>}
                 ELSE IF ~s.isFile /\ envCalls # ImplInitialCalls((IF req2.ent.mt.k = "none" THEN ImplHead(req2, 0) ELSE ih).body)
                      THEN {<<s.case, ln, "initial get_range calls">>} ELSE {}
            ELSE {}
      ibInit == IF req2.ent.mt.k = "none" THEN ImplInitFor(req2, h, 0)
                ELSE IF h.date.k = "secs" THEN ImplInitFor(req2, h, h.date.v) ELSE [k |-> "none"]
  IN [s EXCEPT !.run = e.run, !.isGet = isGet, !.h = h, !.hasH = TRUE, !.t0 = e.t0, !.t1 = e.t1,
               !.bs = bs1, !.hasB = TRUE, !.eos0 = FALSE,
               !.mainH = IF isMain THEN h ELSE s.mainH,
               !.mainIsGet = IF isMain THEN isGet ELSE s.mainIsGet,
               !.hasMain = IF isMain THEN TRUE ELSE s.hasMain,
               !.ib = IF Strict /\ inDom THEN ibInit ELSE [k |-> "none"],
               !.ibOK = Strict /\ inDom /\ dr = {} /\ ibInit.k # "none" /\ ~s.isFile,
               !.heads = s.heads + 1,
               !.drift = s.drift \cup dr,
               !.viol = s.viol \cup Bad(s, ln, fails, "head") \cup Bad(s, ln, c13calls, "entity read for non-GET/HEAD")
                          \cup Bad(s, ln, c15calls, "HEAD called get_range") \cup Bad(s, ln, echoFail, "echo")]

OnPoll(s, e, ln) ==
  IF ~s.hasB THEN s
  ELSE
  LET p == [lo |-> e.lo, up |-> e.up, eos |-> e.eos, res |-> e.res, n |-> e.n, env |-> e.env, nexts |-> e.nexts]
      before == s.bs.bad
      \* A file-backed entity has no stream log.  When the harness truncates the file below the end of
      \* the (single) range while the body is still incomplete, the entity's stream can no longer honour
      \* its contract: recorded as a failed call, so that C01/C02 stop speaking and C07 starts.
      \* (Generated only for full / single-range responses with the new length <= the last byte's index.)
      cut == s.isFile /\ e.ftrunc >= 0 /\ s.bs.term = "none"
               /\ (s.bs.ann.k = "none" \/ Lt(s.bs.del, s.bs.ann.v))
      bs1 == IF cut THEN [s.bs EXCEPT !.calls = Append(s.bs.calls, [NewCall(Zero, One) EXCEPT !.st = "failed"])]
             ELSE s.bs
      bs2 == Observe(bs1, p, s.isGet)
      new == bs2.bad \ before
      \* Strict: compare with the Impl body machine
      it == ItemOf(e.env)
      canStep == s.ibOK /\ e.res # "panic"
      pollsStream == IF canStep THEN ImplPollsStream(s.ib) ELSE FALSE
      consistent == canStep /\ (pollsStream <=> it.k # "none") /\ CallsOf(e.env) = ImplPollCalls(s.ib)
                      /\ it.k # "stall"
      stepped == IF consistent THEN ImplPoll(s.ib, it, LAMBDA i : HdrLenOf(s, i)) ELSE [res |-> "", n |-> 0, ib |-> s.ib]
      hintOK == canStep => (ImplHint(s.ib) = [lo |-> e.lo, up |-> e.up] /\ ImplEos(s.ib) = e.eos)
      resOK == consistent => (stepped.res = e.res /\ stepped.n = e.n)
      dr == IF canStep /\ ~(hintOK /\ resOK /\ (consistent \/ it.k = "stall"))
            THEN {<<s.case, ln, "poll">>} ELSE {}
  IN [s EXCEPT !.bs = bs2, !.eos0 = IF s.bs.polls = 0 THEN e.eos ELSE s.eos0,
               !.pollsN = s.pollsN + 1,
               !.ib = stepped.ib, !.ibOK = consistent /\ dr = {},
               !.drift = s.drift \cup dr,
               !.viol = s.viol \cup Bad(s, ln, new, "poll")]

OnBody(s, e, ln) ==
  IF ~s.hasB \/ ~s.hasH THEN s
  ELSE
  LET judged == e.run \in {"main", "twin"}
      drained == e.stopped = "drained"
      req2 == IF e.run = "twin"
              THEN [s.req EXCEPT !.mclass = IF s.req.mclass = "get" THEN "head" ELSE "get"] ELSE s.req
      bf == IF judged /\ s.isGet THEN BodyFailures(req2, s.h, s.bs, e.tokens, drained) ELSE {}
      hang == IF e.stopped = "hang" THEN Enforce \cap {"C13"}
              ELSE IF e.stopped = "max_polls" /\ judged
              THEN Enforce \cap {"C01", "C02", "C06", "C07"}   \* the body does not terminate
              ELSE {}
      summary == [calls |-> e.calls, spolls |-> e.spolls, total |-> e.total,
                  hint0 |-> IF Len(s.bs.probes) > 0
                            THEN [lo |-> s.bs.probes[1][1], up |-> s.bs.probes[1][2]]
                            ELSE [lo |-> Zero, up |-> None],
                  eos0 |-> s.eos0]
      isMain == e.run = "main"
      \* C15: at the twin's body event both runs are known
      pairFail == IF e.run = "twin" /\ "C15" \in Enforce /\ s.hasMain /\ s.req.mclass \in {"get", "head"}
                  THEN LET hg == IF s.mainIsGet THEN s.mainH ELSE s.h
                           hh == IF s.mainIsGet THEN s.h ELSE s.mainH
                           bh == IF s.mainIsGet THEN summary ELSE s.mainB
                       IN IF C15_Pair(hg, hh, bh) THEN {} ELSE {"C15"}
                  ELSE {}
  IN [s EXCEPT !.mainB = IF isMain THEN summary ELSE s.mainB,
               !.hasB = FALSE,
               !.viol = s.viol \cup Bad(s, ln, bf, "body") \cup Bad(s, ln, hang, "body hangs or does not terminate within the poll budget")
                          \cup Bad(s, ln, pairFail, "HEAD/GET pair")]

\* Body::from / Body::empty conversions (C12): a body with no head; the announced length is the
\* first hint, which must be exact and equal to the converted length
ConvHead == [status |-> 200, cl |-> None]
OnConv(s, e, ln) ==
  [s EXCEPT !.bs = InitBody(ConvHead, TRUE), !.hasB = TRUE, !.hasH = FALSE, !.isGet = TRUE, !.run = "conv",
            !.ib = ImplBodyInit(IF e.kind = "empty" THEN [k |-> "empty"] ELSE [k |-> "once", n |-> e.len]),
            !.ibOK = Strict, !.convLen = e.len]
OnConvEnd(s, e, ln) ==
  IF ~s.hasB THEN s
  ELSE LET bad == IF s.bs.term = "end" /\ (e.total # s.convLen \/ s.bs.ann # [k |-> "some", v |-> N(s.convLen)])
                  THEN Enforce \cap {"C12"} ELSE {}
       IN [s EXCEPT !.hasB = FALSE, !.viol = s.viol \cup Bad(s, ln, bad, "Body::from length / hint")]

Step(s, e, ln) ==
  CASE e.ev = "reset" -> OnReset(s, e)
    [] e.ev = "conv" -> OnConv(s, e, ln)
    [] e.ev = "convend" -> OnConvEnd(s, e, ln)
    [] e.ev = "req" -> OnReq(s, e)
    [] e.ev = "head" -> OnHead(s, e, ln)
    [] e.ev = "poll" -> OnPoll(s, e, ln)
    [] e.ev = "body" -> OnBody(s, e, ln)
    [] OTHER -> s

Init == l = 1 /\ st = Init0

RECURSIVE SetToSeqLocal(_)
SetToSeqLocal(S) == IF S = {} THEN <<>> ELSE LET x == CHOOSE y \in S : TRUE IN <<x>> \o SetToSeqLocal(S \ {x})

Next ==
  \/ /\ l <= Len(Rec)
     /\ st' = Step(st, Rec[l], l)
     /\ l' = l + 1
  \/ /\ l = Len(Rec) + 1
     /\ ndJsonSerialize(OutFile, <<[events |-> Len(Rec), cases |-> st.cases, heads |-> st.heads,
                                    polls |-> st.pollsN,
                                    viol |-> SetToSeqLocal(st.viol), drift |-> SetToSeqLocal(st.drift)]>>)
     /\ l' = l + 1
     /\ st' = st

Spec == Init /\ [][Next]_vars

\* the pass must consume the whole trace and write its result
Accepted == TLCGet("stats").diameter = Len(Rec) + 2
=============================================================================
