----------------------------- MODULE RangesInt -----------------------------
(***************************************************************************)
(* Unbounded check (Apalache) that the code's range arithmetic -- half-open *)
(* u64 ranges, `last + 1` saturating at 2^64-1 then clamped to the length,  *)
(* suffix length clamped to the length (range.rs, as modelled by            *)
(* Serve!ImplResolveSpec) -- selects exactly what RFC 7233 / property C03    *)
(* prescribes (Serve!ResolveSpec), for EVERY entity length and every        *)
(* position in 0..2^64-1, not only the landmark values TLC enumerates.      *)
(* Plain integers here (Apalache has unbounded Int); the limb encoding of   *)
(* U64.tla is only needed for TLC.                                          *)
(*   apalache-mc check --init=Init --next=Next --inv=Equivalent --length=1  *)
(***************************************************************************)
EXTENDS Integers

VARIABLES
  \* @type: Int;
  len,
  \* @type: Int;
  a,
  \* @type: Int;
  b,
  \* @type: Int;
  n

MaxU64 == 18446744073709551615

Min(x, y) == IF x < y THEN x ELSE y

\* --- property text (closed intervals); result <<ok, lo, hi>>
SpecFL == IF a < len /\ a <= b THEN <<TRUE, a, Min(b, len - 1)>> ELSE <<FALSE, 0, 0>>
SpecF == IF a < len THEN <<TRUE, a, len - 1>> ELSE <<FALSE, 0, 0>>
SpecS == IF n = 0 \/ len = 0 THEN <<FALSE, 0, 0>> ELSE <<TRUE, len - Min(n, len), len - 1>>

\* --- the code (half-open, saturating)
SatSucc(x) == IF x >= MaxU64 THEN MaxU64 ELSE x + 1
ImplFL == LET end == Min(SatSucc(b), len) IN IF a >= end THEN <<FALSE, 0, 0>> ELSE <<TRUE, a, end - 1>>
ImplF == IF a >= len THEN <<FALSE, 0, 0>> ELSE <<TRUE, a, len - 1>>
ImplS == LET last == Min(n, len) IN IF last = 0 THEN <<FALSE, 0, 0>> ELSE <<TRUE, len - last, len - 1>>

InU64(x) == x >= 0 /\ x <= MaxU64

Init == /\ len \in Int /\ a \in Int /\ b \in Int /\ n \in Int
        /\ InU64(len) /\ InU64(a) /\ InU64(b) /\ InU64(n)
Next == UNCHANGED <<len, a, b, n>>

Equivalent == SpecFL = ImplFL /\ SpecF = ImplF /\ SpecS = ImplS

\* every selected interval lies inside the entity and is non-empty; no u64 overflow occurs
InBounds ==
  /\ ImplFL[1] => (0 <= ImplFL[2] /\ ImplFL[2] <= ImplFL[3] /\ ImplFL[3] < len)
  /\ ImplS[1] => (0 <= ImplS[2] /\ ImplS[2] <= ImplS[3] /\ ImplS[3] < len)
  /\ SatSucc(b) <= MaxU64

Inv == Equivalent /\ InBounds
=============================================================================
